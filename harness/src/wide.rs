//! C20 on networks whose coloured state space is far beyond explicit enumeration (and beyond 2^53):
//! the parametrised result, restricted to one colour, is compared with the result on the network
//! instantiated by that colour AS BDDs (transferred between the two symbolic contexts). The
//! harness records the facts (equal, exact cardinalities); spec/Trace_Slice.tla judges them.

use crate::enc::colour_rows;
use crate::sem::{instantiate, load_network};
use biodivine_hctl_model_checker::mc_utils::get_extended_symbolic_graph;
use biodivine_hctl_model_checker::model_checking::model_check_formula;
use biodivine_lib_param_bn::symbolic_async_graph::{GraphColoredVertices, SymbolicAsyncGraph};
use serde_json::{json, Value};
use std::panic::{catch_unwind, AssertUnwindSafe};

pub fn run(jobs: &str) -> Result<(), String> {
    let text = std::fs::read_to_string(jobs).map_err(|e| e.to_string())?;
    let doc: Value = serde_json::from_str(&text).map_err(|e| e.to_string())?;
    std::panic::set_hook(Box::new(|_| {}));
    let mut facts = Vec::new();
    for job in doc.as_array().ok_or("list expected")? {
        let id = job["id"].as_str().unwrap_or("?");
        let bn = load_network(job["model"].as_str().unwrap_or(""), "aeon")?;
        let k = job["k"].as_u64().unwrap_or(0) as u16;
        let g = get_extended_symbolic_graph(&bn, k)?;
        // sanitised results live in the canonical context (no spare variable sets)
        let canon = SymbolicAsyncGraph::new(&bn)?;
        let formula = job["formula"].as_str().unwrap_or("true");
        let whole = catch_unwind(AssertUnwindSafe(|| model_check_formula(formula, &g)));
        for (ci, c) in job["colours"].as_array().ok_or("colours")?.iter().enumerate() {
            let colour = c.as_u64().unwrap_or(0);
            let mut fact = json!({"id": format!("{id}-c{ci}"), "job": id, "formula": formula, "colour": colour, "model": job["model"]});
            let rows = colour_rows(canon.symbolic_context(), &bn);
            let assignment: Vec<_> = rows.iter().enumerate().map(|(j, r)| (*r, (colour >> j) & 1 == 1)).collect();
            // is the colour valid (does the unit set contain it)?
            let valid = !canon.unit_colored_vertices().as_bdd().restrict(&assignment).is_false();
            fact["valid"] = json!(valid);
            match &whole {
                Ok(Ok(res)) => {
                    let r = catch_unwind(AssertUnwindSafe(|| -> Result<(bool, String, String), String> {
                        let inst = instantiate(&bn, colour)?;
                        let g2 = get_extended_symbolic_graph(&inst, k)?;
                        let res2 = model_check_formula(formula, &g2)?;
                        let slice = res.as_bdd().restrict(&assignment);
                        let canon2 = SymbolicAsyncGraph::new(&inst)?;
                        let moved = canon2
                            .symbolic_context()
                            .transfer_from(&slice, canon.symbolic_context())
                            .ok_or("TOOL: slice cannot be transferred to the instantiated context")?;
                        let slice_set = GraphColoredVertices::new(moved, canon2.symbolic_context());
                        // (semantic comparison: structurally different BDDs can denote the same set)
                        let same = crate::enc::same_bdd(slice_set.as_bdd(), res2.as_bdd());
                        Ok((
                            same,
                            slice_set.vertices().exact_cardinality().to_string(),
                            res2.vertices().exact_cardinality().to_string(),
                        ))
                    }));
                    match r {
                        Ok(Ok((eq, a, b))) => {
                            fact["outcome"] = json!("ok");
                            fact["equal"] = json!(eq);
                            fact["slice_states"] = json!(a);
                            fact["instantiated_states"] = json!(b);
                        }
                        Ok(Err(e)) => {
                            fact["outcome"] = json!(if e.starts_with("TOOL:") { "toolerr" } else { "err" });
                            fact["msg"] = json!(e);
                            fact["equal"] = json!(false);
                        }
                        Err(_) => {
                            fact["outcome"] = json!("panic");
                            fact["equal"] = json!(false);
                        }
                    }
                }
                Ok(Err(e)) => {
                    fact["outcome"] = json!("err");
                    fact["msg"] = json!(e);
                    fact["equal"] = json!(false);
                }
                Err(_) => {
                    fact["outcome"] = json!("panic");
                    fact["equal"] = json!(false);
                }
            }
            facts.push(fact);
        }
    }
    println!("{}", json!({"facts": facts}));
    Ok(())
}
