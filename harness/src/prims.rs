//! Primitive-level replay: calls the crate's (otherwise private) symbolic primitives - the operator
//! evaluators of hctl_operators_eval.rs and the low-level operations - on ARBITRARY raw sets given
//! as explicit relations over (colour, state, variable copies), and records the result as an
//! explicit relation. Judged by TLC against the set-level contracts of spec/Rel.tla (Trace_Rel).

use crate::enc::*;
use biodivine_hctl_model_checker::evaluation::algorithm::compute_steady_states;
use biodivine_hctl_model_checker::evaluation::primitives_export::*;
use biodivine_hctl_model_checker::mc_utils::get_extended_symbolic_graph;
use biodivine_lib_param_bn::symbolic_async_graph::{GraphColoredVertices, SymbolicAsyncGraph};
use biodivine_lib_param_bn::BooleanNetwork;
use serde_json::{json, Value};

fn load_network(model: &str, format: &str) -> Result<BooleanNetwork, String> {
    match format {
        "aeon" => BooleanNetwork::try_from(model),
        "bnet" => BooleanNetwork::try_from_bnet(model),
        _ => Err(format!("unknown format {format}")),
    }
}
use std::panic::{catch_unwind, AssertUnwindSafe};

fn tuples(v: &Value) -> Vec<Vec<u64>> {
    v.as_array()
        .map(|a| {
            a.iter()
                .map(|t| t.as_array().map(|x| x.iter().map(|y| y.as_u64().unwrap_or(0)).collect()).unwrap_or_default())
                .collect()
        })
        .unwrap_or_default()
}

fn var_name(i: u64) -> String {
    "x".repeat(i as usize)
}

fn apply(op: &Value, g: &SymbolicAsyncGraph, bn: &BooleanNetwork, k: usize) -> Result<GraphColoredVertices, String> {
    let ctx = g.symbolic_context();
    let set = |key: &str| set_of_full_tuples(&tuples(&op[key]), ctx, bn, k);
    let i = var_name(op["i"].as_u64().unwrap_or(1));
    let j = var_name(op["j"].as_u64().unwrap_or(1));
    let mut cb = |_: &GraphColoredVertices, _: &str| {};
    // the self-loop argument: "steady" = what the evaluator passes (compute_steady_states), otherwise the given set
    let st = if op["st_kind"].as_str() == Some("steady") { compute_steady_states(g) } else { set("st") };
    let name = op["op"].as_str().unwrap_or("");
    Ok(match name {
        "neg" => eval_neg(g, &set("a")),
        "imp" => eval_imp(g, &set("a"), &set("b")),
        "iff" => eval_equiv(g, &set("a"), &set("b")),
        "xor" => eval_xor(g, &set("a"), &set("b")),
        "prop" => eval_prop(g, op["name"].as_str().unwrap_or("")),
        "var" => eval_hctl_var(g, &i),
        "comp2" => create_comparator_two_vars(g, &i, &j),
        "bind" => eval_bind(g, &set("a"), &i),
        "exists" => eval_exists(g, &set("a"), &i),
        "jump" => eval_jump(g, &set("a"), &i),
        "ex" => eval_ex(g, &set("a"), &st),
        "ax" => eval_ax(g, &set("a"), &st),
        "eu_ex" => eval_eu(g, &set("a"), &set("b"), &st),
        "ef_ex" => eval_ef(g, &set("a"), &st),
        "eu" => eval_eu_saturated(g, &set("a"), &set("b"), &mut cb),
        "ef" => eval_ef_saturated(g, &set("a"), &mut cb),
        "eg" => eval_eg(g, &set("a"), &st, &mut cb),
        "af" => eval_af(g, &set("a"), &st, &mut cb),
        "ag" => eval_ag(g, &set("a"), &mut cb),
        "au" => eval_au(g, &set("a"), &set("b"), &st, &mut cb),
        "ew" => eval_ew(g, &set("a"), &set("b"), &st, &mut cb),
        "aw" => eval_aw(g, &set("a"), &set("b"), &mut cb),
        "project_var" => project_out_hctl_var(g, &set("a"), &i),
        "project_state" => project_out_bn_vars(g, &set("a")),
        "substitute" => substitute_hctl_var(g, &set("a"), &i, &j),
        "domain_of" => compute_valid_domain_for_var(g, &set("a"), &i),
        "restrict" => restrict_stg_unit_bdd(g, &set("a")).unit_colored_vertices().clone(),
        "steady" => compute_steady_states(g),
        _ => return Err(format!("TOOL: unknown primitive {name}")),
    })
}

pub fn run(jobs: &str, outdir: &str) -> Result<(), String> {
    let text = std::fs::read_to_string(jobs).map_err(|e| e.to_string())?;
    let doc: Value = serde_json::from_str(&text).map_err(|e| e.to_string())?;
    std::fs::create_dir_all(outdir).map_err(|e| e.to_string())?;
    std::panic::set_hook(Box::new(|_| {}));
    for net in doc["nets"].as_array().ok_or("nets")? {
        let id = net["id"].as_str().ok_or("net id")?;
        let bn = load_network(net["model"].as_str().unwrap_or(""), net["format"].as_str().unwrap_or("aeon"))?;
        let mut cases_out = Vec::new();
        for case in doc["cases"].as_array().ok_or("cases")? {
            if case["net"].as_str() != Some(id) {
                continue;
            }
            let k = case["k"].as_u64().unwrap_or(1) as usize;
            let base = get_extended_symbolic_graph(&bn, k as u16)?;
            // an optional restriction of the unit set (a relation that may depend on the variable copies),
            // applied through the crate's own restrict_stg_unit_bdd as the domain quantifiers do
            let g = if case["unit"].is_array() {
                let r = set_of_full_tuples(&tuples(&case["unit"]), base.symbolic_context(), &bn, k);
                // (an empty restricted unit set has no graph: restrict_stg_unit_bdd unwraps the library's error)
                if base.unit_colored_vertices().as_bdd().and(r.as_bdd()).is_false() {
                    cases_out.push(json!({"id": case["id"], "k": k, "skipped": "empty restricted unit set"}));
                    continue;
                }
                restrict_stg_unit_bdd(&base, &r)
            } else {
                base
            };
            let unit = explicit_full(g.unit_colored_vertices().as_bdd(), g.symbolic_context(), &bn, k);
            let mut ops_out = Vec::new();
            for op in case["ops"].as_array().ok_or("ops")? {
                let mut o = op.clone();
                match catch_unwind(AssertUnwindSafe(|| apply(op, &g, &bn, k))) {
                    Ok(Ok(s)) => {
                        o["outcome"] = json!("ok");
                        o["res"] = json!(explicit_full(s.as_bdd(), g.symbolic_context(), &bn, k));
                    }
                    Ok(Err(e)) => {
                        o["outcome"] = json!("toolerr");
                        o["msg"] = json!(e);
                    }
                    Err(_) => {
                        o["outcome"] = json!("panic");
                    }
                }
                ops_out.push(o);
            }
            let mut co = json!({"id": case["id"], "k": k, "unit_full": unit, "ops": ops_out});
            if case["unit"].is_array() {
                co["unit"] = case["unit"].clone();
            }
            cases_out.push(co);
        }
        let out = json!({"net": describe_network(&bn), "net_id": id, "cases": cases_out});
        std::fs::write(format!("{outdir}/{id}.json"), out.to_string()).map_err(|e| e.to_string())?;
    }
    Ok(())
}
