//! Job executor for the semantic checks: runs the real entry points on generated inputs and
//! records what happened (outcome, results as explicit sets). It never judges.

use crate::enc::*;
use biodivine_hctl_model_checker::evaluation::algorithm::{compute_steady_states, eval_node};
use biodivine_hctl_model_checker::evaluation::eval_context::EvalContext;
use biodivine_hctl_model_checker::evaluation::LabelToSetMap;
use biodivine_hctl_model_checker::mc_utils::get_extended_symbolic_graph;
use biodivine_hctl_model_checker::model_checking::*;
use biodivine_hctl_model_checker::preprocessing::parser::{
    parse_and_minimize_extended_formula, parse_and_minimize_hctl_formula,
};
use biodivine_hctl_model_checker::preprocessing::utils::validate_and_divide_wild_cards;
use biodivine_lib_param_bn::biodivine_std::traits::Set;
use biodivine_lib_param_bn::symbolic_async_graph::{GraphColoredVertices, SymbolicAsyncGraph};
use biodivine_lib_param_bn::{BooleanNetwork, FnUpdate, VariableId};
use rand::rngs::StdRng;
use rand::{Rng, SeedableRng};
use serde_json::{json, Map, Value};
use std::collections::HashMap;
use std::panic::{catch_unwind, AssertUnwindSafe};

pub fn load_network(model: &str, format: &str) -> Result<BooleanNetwork, String> {
    match format {
        "aeon" => BooleanNetwork::try_from(model),
        "bnet" => BooleanNetwork::try_from_bnet(model),
        "sbml" => BooleanNetwork::try_from_sbml(model).map(|x| x.0),
        _ => Err(format!("unknown format {format}")),
    }
}

fn panic_msg(e: Box<dyn std::any::Any + Send>) -> String {
    if let Some(s) = e.downcast_ref::<String>() {
        s.clone()
    } else if let Some(s) = e.downcast_ref::<&str>() {
        s.to_string()
    } else {
        "panic".to_string()
    }
}

struct NetState {
    bn: BooleanNetwork,
    graphs: HashMap<u16, SymbolicAsyncGraph>,
    canonical: Option<SymbolicAsyncGraph>,
}

impl NetState {
    fn graph(&mut self, k: u16) -> Result<&SymbolicAsyncGraph, String> {
        if !self.graphs.contains_key(&k) {
            let g = get_extended_symbolic_graph(&self.bn, k)?;
            self.graphs.insert(k, g);
        }
        Ok(self.graphs.get(&k).unwrap())
    }
}

/// Build the truth table of colour `c` into a fully specified copy of `bn`.
pub fn instantiate(bn: &BooleanNetwork, colour: u64) -> Result<BooleanNetwork, String> {
    // offsets of the truth tables in the colour index
    let mut offset = 0u32;
    let mut p_off = Vec::new();
    for p in bn.parameters() {
        p_off.push(offset);
        offset += 1u32 << bn.get_parameter(p).get_arity();
    }
    let mut v_off: HashMap<VariableId, u32> = HashMap::new();
    for v in bn.variables() {
        if bn.get_update_function(v).is_none() {
            v_off.insert(v, offset);
            offset += 1u32 << bn.regulators(v).len();
        }
    }
    fn table_fn(colour: u64, off: u32, args: &[FnUpdate]) -> FnUpdate {
        let ar = args.len();
        let mut acc = FnUpdate::Const(false);
        for row in 0..(1u32 << ar) {
            if (colour >> (off + row)) & 1 == 1 {
                let mut cube = FnUpdate::Const(true);
                for (j, a) in args.iter().enumerate() {
                    let lit = if (row >> j) & 1 == 1 { a.clone() } else { a.clone().negation() };
                    cube = cube.and(lit);
                }
                acc = acc.or(cube);
            }
        }
        acc
    }
    fn subst(f: &FnUpdate, colour: u64, p_off: &[u32]) -> FnUpdate {
        match f {
            FnUpdate::Const(v) => FnUpdate::Const(*v),
            FnUpdate::Var(i) => FnUpdate::Var(*i),
            FnUpdate::Not(a) => subst(a, colour, p_off).negation(),
            FnUpdate::Binary(op, a, b) => FnUpdate::Binary(
                *op,
                Box::new(subst(a, colour, p_off)),
                Box::new(subst(b, colour, p_off)),
            ),
            FnUpdate::Param(id, args) => {
                let a: Vec<FnUpdate> = args.iter().map(|x| subst(x, colour, p_off)).collect();
                table_fn(colour, p_off[id.to_index()], &a)
            }
        }
    }
    // same variables and regulators, but no observability / monotonicity annotations: the
    // instantiated network is defined by its update functions (an instantiation by a valid colour
    // of a network with zero-arity parameters need not satisfy the annotations on its own)
    let names: Vec<String> = bn.variables().map(|v| bn.get_variable_name(v).clone()).collect();
    let mut rg = biodivine_lib_param_bn::RegulatoryGraph::new(names.clone());
    for r in bn.as_graph().regulations() {
        rg.add_regulation(
            &names[r.get_regulator().to_index()],
            &names[r.get_target().to_index()],
            false,
            None,
        )?;
    }
    let mut out = BooleanNetwork::new(rg);
    for v in bn.variables() {
        let f = match bn.get_update_function(v) {
            Some(f) => subst(f, colour, &p_off),
            None => {
                let args: Vec<FnUpdate> = bn.regulators(v).into_iter().map(FnUpdate::mk_var).collect();
                table_fn(colour, v_off[&v], &args)
            }
        };
        out.set_update_function(v, Some(f))?;
    }
    Ok(out)
}

fn build_ctx_set(
    spec: &Value,
    g: &SymbolicAsyncGraph,
    bn: &BooleanNetwork,
    prev: &[Vec<GraphColoredVertices>],
) -> Result<GraphColoredVertices, String> {
    let t = spec["t"].as_str().ok_or("ctx spec without t")?;
    let ctx = g.symbolic_context();
    Ok(match t {
        "empty" => g.mk_empty_colored_vertices(),
        "unit" => g.mk_unit_colored_vertices(),
        "full" => GraphColoredVertices::new(ctx.mk_constant(true), ctx),
        "formula" => model_check_formula_dirty(spec["f"].as_str().ok_or("no f")?, g)?,
        "tuples" => {
            let v: Vec<u64> = spec["v"].as_array().ok_or("no v")?.iter().map(|x| x.as_u64().unwrap()).collect();
            set_of_tuples(&v, ctx, bn)
        }
        "result" => {
            let c = spec["call"].as_u64().ok_or("no call")? as usize;
            let i = spec["idx"].as_u64().unwrap_or(0) as usize;
            prev.get(c).and_then(|r| r.get(i)).cloned().ok_or("bad result reference")?
        }
        "rand" => {
            let seed = spec["seed"].as_u64().unwrap_or(0);
            let num = spec["num"].as_u64().unwrap_or(1);
            let den = spec["den"].as_u64().unwrap_or(2);
            let mut rng = StdRng::seed_from_u64(seed);
            let n = bn.num_vars();
            let p = colour_rows(ctx, bn).len();
            let keep_colour: Vec<bool> = (0..(1u64 << p))
                .map(|_| if spec["cmask"].is_null() { true } else { rng.gen_range(0..2) == 0 })
                .collect();
            let mut tuples = Vec::new();
            for c in 0..(1u64 << p) {
                for s in 0..(1u64 << n) {
                    let pick = rng.gen_range(0..den) < num;
                    if pick && keep_colour[c as usize] {
                        tuples.push(c * (1u64 << n) + s);
                    }
                }
            }
            let set = set_of_tuples(&tuples, ctx, bn);
            if spec["unit"].as_bool().unwrap_or(true) {
                set.intersect(g.unit_colored_vertices())
            } else {
                set
            }
        }
        _ => return Err(format!("unknown ctx spec {t}")),
    })
}

/// Evaluate every formula with its own fresh context in which no duplicate is marked
/// (wild-card sets are preloaded), i.e. with sharing disabled.
fn run_nosharing(
    formulas: &[String],
    g: &SymbolicAsyncGraph,
    ctx_sets: &LabelToSetMap,
) -> Result<Vec<GraphColoredVertices>, String> {
    let steady = compute_steady_states(g);
    let mut out = Vec::new();
    for f in formulas {
        let tree = parse_and_minimize_extended_formula(g.symbolic_context(), f)?;
        let (props, doms) = validate_and_divide_wild_cards(&tree, ctx_sets)?;
        let mut ec = EvalContext::new(HashMap::new());
        ec.extend_context_with_wild_cards(&props, &doms);
        // every occurrence of a wild-card fetches from the cache; give the counters enough room
        for (_, c) in ec.duplicates.iter_mut() {
            *c = i32::MAX / 2;
        }
        let mut cb = |_: &GraphColoredVertices, _: &str| {};
        out.push(eval_node(tree, g, &mut ec, &steady, &mut cb));
    }
    Ok(out)
}

fn run_call(
    call: &Value,
    st: &mut NetState,
    prev: &[Vec<GraphColoredVertices>],
) -> (Map<String, Value>, Vec<GraphColoredVertices>) {
    let mut out = Map::new();
    let api = call["api"].as_str().unwrap_or("").to_string();
    let k = call["k"].as_u64().unwrap_or(0) as u16;
    let formulas: Vec<String> = call["formulas"]
        .as_array()
        .map(|a| a.iter().map(|x| x.as_str().unwrap_or("").to_string()).collect())
        .unwrap_or_default();
    let progress = call["progress"].as_bool().unwrap_or(false);
    let bn = st.bn.clone();

    // instantiated network for one colour
    if api == "inst_formula" {
        let colour = call["colour"].as_u64().unwrap_or(0);
        let r = catch_unwind(AssertUnwindSafe(|| -> Result<Vec<u64>, String> {
            let inst = instantiate(&bn, colour)?;
            let g = get_extended_symbolic_graph(&inst, k)?;
            // context sets given as closed plain formulae are evaluated on the instantiated network
            let mut ctx_sets: LabelToSetMap = HashMap::new();
            if let Some(m) = call["ctx"].as_object() {
                for (label, spec) in m {
                    let f = spec["f"].as_str().ok_or("inst_formula: only formula-defined context sets")?;
                    ctx_sets.insert(label.clone(), model_check_formula_dirty(f, &g)?);
                }
            }
            let res = if ctx_sets.is_empty() {
                model_check_formula(&formulas[0], &g)?
            } else {
                model_check_extended_formula(&formulas[0], &g, &ctx_sets)?
            };
            let canon = SymbolicAsyncGraph::new(&inst)?;
            Ok(explicit_of(&res, canon.symbolic_context(), &inst).tuples)
        }));
        match r {
            Ok(Ok(t)) => {
                out.insert("outcome".into(), json!("ok"));
                out.insert("res".into(), json!([t]));
                out.insert("aux".into(), json!([false]));
            }
            Ok(Err(e)) => {
                out.insert("outcome".into(), json!("err"));
                out.insert("msg".into(), json!(e));
            }
            Err(e) => {
                out.insert("outcome".into(), json!("panic"));
                out.insert("msg".into(), json!(panic_msg(e)));
            }
        }
        return (out, vec![]);
    }

    let mut custom = call["k_map"].as_array().map(|a| a.iter().map(|x| x.as_u64().unwrap_or(0) as u16).collect::<Vec<u16>>());
    let unit_cmask = call["unit_cmask"].as_u64();
    if unit_cmask.is_some() && custom.is_none() {
        custom = Some(vec![k; bn.num_vars()]);
    }
    let g_res = if let Some(km) = custom {
        // a graph whose network variables have DIFFERENT numbers of spare variable sets (public API)
        (|| -> Result<SymbolicAsyncGraph, String> {
            let mut map = HashMap::new();
            for (v, n) in bn.variables().zip(km.iter()) {
                map.insert(v, *n);
            }
            let ctx = biodivine_lib_param_bn::symbolic_async_graph::SymbolicContext::with_extra_state_variables(&bn, &map)?;
            let mut unit = ctx.mk_constant(true);
            if let Some(seed) = unit_cmask {
                // a custom unit set: a pseudo-random subset of the colours (a graph built for the network
                // through the public with_custom_context)
                let rows = colour_rows(&ctx, &bn);
                let mut rng = StdRng::seed_from_u64(seed);
                let vs = ctx.bdd_variable_set();
                let mut keep = vs.mk_false();
                for c in 0..(1u64 << rows.len()) {
                    if rng.gen_range(0..3) > 0 {
                        let mut cube = vs.mk_true();
                        for (j, r) in rows.iter().enumerate() {
                            cube = cube.and(&vs.mk_literal(*r, (c >> j) & 1 == 1));
                        }
                        keep = keep.or(&cube);
                    }
                }
                // keep at least one valid colour (otherwise no graph exists for the subset)
                let plain = SymbolicAsyncGraph::with_custom_context(&bn, ctx.clone(), ctx.mk_constant(true))?;
                if !plain.unit_colored_vertices().as_bdd().and(&keep).is_false() {
                    unit = unit.and(&keep);
                }
            }
            SymbolicAsyncGraph::with_custom_context(&bn, ctx, unit)
        })()
    } else {
        st.graph(k).map(|g| g.clone())
    };
    let g = match g_res {
        Ok(g) => g,
        Err(e) => {
            out.insert("outcome".into(), json!("toolerr"));
            out.insert("msg".into(), json!(e));
            return (out, vec![]);
        }
    };
    // context sets
    let mut ctx_sets: LabelToSetMap = HashMap::new();
    let mut ctx_dump = Map::new();
    if let Some(m) = call["ctx"].as_object() {
        for (label, spec) in m {
            match catch_unwind(AssertUnwindSafe(|| build_ctx_set(spec, &g, &bn, prev))) {
                Ok(Ok(s)) => {
                    let e = explicit_of(&s, g.symbolic_context(), &bn);
                    ctx_dump.insert(label.clone(), json!(e.tuples));
                    ctx_sets.insert(label.clone(), s);
                }
                Ok(Err(e)) => {
                    out.insert("outcome".into(), json!("toolerr"));
                    out.insert("msg".into(), json!(format!("ctx {label}: {e}")));
                    return (out, vec![]);
                }
                Err(e) => {
                    out.insert("outcome".into(), json!("toolerr"));
                    out.insert("msg".into(), json!(format!("ctx {label}: panic {}", panic_msg(e))));
                    return (out, vec![]);
                }
            }
        }
    }
    out.insert("ctx_sets".into(), Value::Object(ctx_dump));
    out.insert(
        "fchars".into(),
        json!(formulas.iter().map(|f| crate::syn::chars_of(f)).collect::<Vec<_>>()),
    );

    // step-level trace through the cfg(hctl_verif) hooks
    let trace_on = call["trace"].as_bool().unwrap_or(false);
    let trace_log: std::rc::Rc<std::cell::RefCell<Vec<Value>>> = std::rc::Rc::new(std::cell::RefCell::new(Vec::new()));
    #[cfg(hctl_verif)]
    if trace_on {
        use biodivine_hctl_model_checker::verif_hooks::{set_sink, Event};
        let log = trace_log.clone();
        let sctx = g.symbolic_context().clone();
        let bn2 = bn.clone();
        let kk = k as usize;
        set_sink(Box::new(move |ev: &Event| {
            let v = match ev {
                Event::Hit(key, left, evicted) => json!({"e":"hit","key":key,"left":left,"evict":evicted}),
                Event::Miss(key, save) => json!({"e":"miss","key":key,"save":save}),
                Event::Save(key) => json!({"e":"save","key":key}),
                Event::Pattern(kind) => json!({"e":"pattern","kind":kind}),
                Event::Open(var, dom) => json!({"e":"open","var":var,"dom":dom.unwrap_or("")}),
                Event::Empty(var) => json!({"e":"empty","var":var}),
                Event::Close(var) => json!({"e":"close","var":var}),
                Event::Return(f, set) => json!({"e":"ret","f":f,"set":explicit_full(set.as_bdd(), &sctx, &bn2, kk)}),
            };
            log.borrow_mut().push(v);
        }));
    }
    let fs: Vec<&str> = formulas.iter().map(|s| s.as_str()).collect();
    if trace_on {
        // the state the marking pass leaves, through the same public constructors the entry points use
        // (EvalContext::from_multiple_trees, extend_context_with_wild_cards): the first record of the cache trace
        let extended = api.contains("ext");
        let init = catch_unwind(AssertUnwindSafe(|| -> Result<Value, String> {
            let mut trees = Vec::new();
            let mut props: LabelToSetMap = HashMap::new();
            let mut doms: LabelToSetMap = HashMap::new();
            for f in fs.iter() {
                let tree = if extended {
                    parse_and_minimize_extended_formula(g.symbolic_context(), f)?
                } else {
                    parse_and_minimize_hctl_formula(g.symbolic_context(), f)?
                };
                if extended {
                    let (p, d) = validate_and_divide_wild_cards(&tree, &ctx_sets)?;
                    props.extend(p);
                    doms.extend(d);
                }
                trees.push(tree);
            }
            let mut ec = EvalContext::from_multiple_trees(&trees);
            if extended {
                ec.extend_context_with_wild_cards(&props, &doms);
            }
            let mut entries: Vec<Value> = ec
                .get_duplicates()
                .iter()
                .map(|((form, d), n)| {
                    let cached = ec.get_cache().contains_key(&(form.clone(), d.clone()));
                    let dom_text: Vec<String> = d.iter().map(|(v, l)| format!("{v}:{}", l.clone().unwrap_or_default())).collect();
                    json!({"form": form, "doms": dom_text.join(","), "n": n, "cached": cached,
                           "wild": form.starts_with('%') && form.ends_with('%') && d.is_empty()})
                })
                .collect();
            entries.sort_by_key(|e| (e["form"].as_str().unwrap_or("").to_string(), e["doms"].as_str().unwrap_or("").to_string()));
            Ok(json!(entries))
        }));
        if let Ok(Ok(v)) = init {
            out.insert("dups0".into(), v);
        }
    }
    let mut n_callbacks = 0u64;
    let mut cb = |_: &GraphColoredVertices, _: &str| {
        n_callbacks += 1;
    };
    let sanitised = matches!(api.as_str(), "formula" | "multi" | "tree" | "multi_trees" | "ext" | "multi_ext");
    let r = catch_unwind(AssertUnwindSafe(|| -> Result<Vec<GraphColoredVertices>, String> {
        let one = |r: Result<GraphColoredVertices, String>| r.map(|x| vec![x]);
        let trees = |g: &SymbolicAsyncGraph| -> Result<Vec<_>, String> {
            fs.iter().map(|f| parse_and_minimize_hctl_formula(g.symbolic_context(), f)).collect()
        };
        match (api.as_str(), progress) {
            ("formula", false) => one(model_check_formula(fs[0], &g)),
            ("formula", true) => one(_model_check_formula(fs[0], &g, &mut cb)),
            ("formula_dirty", false) => one(model_check_formula_dirty(fs[0], &g)),
            ("formula_dirty", true) => one(_model_check_formula_dirty(fs[0], &g, &mut cb)),
            ("multi", false) => model_check_multiple_formulae(fs.clone(), &g),
            ("multi", true) => _model_check_multiple_formulae(fs.clone(), &g, &mut cb),
            ("multi_dirty", false) => model_check_multiple_formulae_dirty(fs.clone(), &g),
            ("multi_dirty", true) => _model_check_multiple_formulae_dirty(fs.clone(), &g, &mut cb),
            ("tree", false) => one(model_check_tree(trees(&g)?.remove(0), &g)),
            ("tree", true) => one(_model_check_tree(trees(&g)?.remove(0), &g, &mut cb)),
            ("tree_dirty", false) => one(model_check_tree_dirty(trees(&g)?.remove(0), &g)),
            ("tree_dirty", true) => one(_model_check_tree_dirty(trees(&g)?.remove(0), &g, &mut cb)),
            ("multi_trees", false) => model_check_multiple_trees(trees(&g)?, &g),
            ("multi_trees", true) => _model_check_multiple_trees(trees(&g)?, &g, &mut cb),
            ("multi_trees_dirty", false) => model_check_multiple_trees_dirty(trees(&g)?, &g),
            ("multi_trees_dirty", true) => _model_check_multiple_trees_dirty(trees(&g)?, &g, &mut cb),
            ("ext", false) => one(model_check_extended_formula(fs[0], &g, &ctx_sets)),
            ("ext", true) => one(_model_check_extended_formula(fs[0], &g, &ctx_sets, &mut cb)),
            ("ext_dirty", false) => one(model_check_extended_formula_dirty(fs[0], &g, &ctx_sets)),
            ("ext_dirty", true) => one(_model_check_extended_formula_dirty(fs[0], &g, &ctx_sets, &mut cb)),
            ("multi_ext", false) => model_check_multiple_extended_formulae(fs.clone(), &g, &ctx_sets),
            ("multi_ext", true) => _model_check_multiple_extended_formulae(fs.clone(), &g, &ctx_sets, &mut cb),
            ("multi_ext_dirty", false) => model_check_multiple_extended_formulae_dirty(fs.clone(), &g, &ctx_sets),
            ("multi_ext_dirty", true) => {
                _model_check_multiple_extended_formulae_dirty(fs.clone(), &g, &ctx_sets, &mut cb)
            }
            ("unsafe_ex", _) => one(model_check_formula_unsafe_ex(fs[0], &g)),
            ("nosharing", _) => run_nosharing(&formulas, &g, &ctx_sets),
            _ => Err(format!("TOOL: unknown api {api}")),
        }
    }));
    #[cfg(hctl_verif)]
    if trace_on {
        biodivine_hctl_model_checker::verif_hooks::clear_sink();
    }
    if trace_on {
        out.insert("steps".into(), json!(*trace_log.borrow()));
    }
    let mut raw = vec![];
    match r {
        Ok(Ok(sets)) => {
            out.insert("outcome".into(), json!("ok"));
            if trace_on && !sanitised {
                out.insert("res_full".into(), json!(sets.iter().map(|s| explicit_full(s.as_bdd(), g.symbolic_context(), &bn, k as usize)).collect::<Vec<_>>()));
            }
            let mut res = Vec::new();
            let mut aux = Vec::new();
            let mut canon_ok = Vec::new();
            let mut api_read: Vec<Value> = Vec::new();
            for s in &sets {
                if sanitised {
                    // the set as the API presents it: sizes of the set and of its projections read through the
                    // set's OWN methods (they use the variable lists the set carries, not only its BDD)
                    let counts = catch_unwind(AssertUnwindSafe(|| {
                        let as_i64 = |x: String| x.parse::<i64>().unwrap_or(-1);
                        vec![
                            as_i64(s.exact_cardinality().to_string()),
                            as_i64(s.colors().exact_cardinality().to_string()),
                            as_i64(s.vertices().exact_cardinality().to_string()),
                        ]
                    }))
                    .unwrap_or_else(|_| vec![-1, -1, -1]);
                    api_read.push(json!(counts));
                    if st.canonical.is_none() {
                        st.canonical = SymbolicAsyncGraph::new(&bn).ok();
                    }
                    let cg = st.canonical.as_ref().unwrap();
                    let same_vars = s.as_bdd().num_vars() == cg.symbolic_context().bdd_variable_set().num_vars();
                    let compat = same_vars
                        && catch_unwind(AssertUnwindSafe(|| {
                            let _ = s.intersect(cg.unit_colored_vertices());
                        }))
                        .is_ok();
                    canon_ok.push(compat);
                    if same_vars {
                        let e = explicit_of(s, cg.symbolic_context(), &bn);
                        res.push(json!(e.tuples));
                        aux.push(e.aux || e.unknown_support);
                    } else {
                        res.push(json!([]));
                        aux.push(true);
                    }
                } else {
                    let e = explicit_of(s, g.symbolic_context(), &bn);
                    res.push(json!(e.tuples));
                    aux.push(e.aux || e.unknown_support);
                    canon_ok.push(true);
                    // the colour / vertex sanitisers on the projections of a raw result (C15)
                    if call["san_proj"].as_bool().unwrap_or(false) {
                        let proj = catch_unwind(AssertUnwindSafe(|| {
                            use biodivine_hctl_model_checker::postprocessing::sanitizing::{sanitize_colors, sanitize_vertices};
                            let canon_g = SymbolicAsyncGraph::new(&bn).unwrap();
                            let cctx = canon_g.symbolic_context();
                            let sc = sanitize_colors(&g, &s.colors());
                            let sv = sanitize_vertices(&g, &s.vertices());
                            let same_vars = sc.as_bdd().num_vars() == cctx.bdd_variable_set().num_vars()
                                && sv.as_bdd().num_vars() == cctx.bdd_variable_set().num_vars();
                            // colours: pairs with state 0 ; vertices: pairs with colour 0 (the other half is unconstrained)
                            let n = bn.num_vars();
                            let cols: Vec<u64> = explicit_of_bdd(sc.as_bdd(), cctx, &bn).tuples.iter().filter(|t| *t % (1u64 << n) == 0).map(|t| t >> n).collect();
                            let verts: Vec<u64> = explicit_of_bdd(sv.as_bdd(), cctx, &bn).tuples.iter().filter(|t| *t >> n == 0).map(|t| t % (1u64 << n)).collect();
                            (same_vars, cols, verts)
                        }));
                        match proj {
                            Ok((ok, cols, verts)) => {
                                out.insert("san_proj_ok".into(), json!(ok));
                                out.insert("san_colors".into(), json!(cols));
                                out.insert("san_vertices".into(), json!(verts));
                            }
                            Err(_) => {
                                out.insert("san_proj_ok".into(), json!(false));
                                out.insert("san_colors".into(), json!([]));
                                out.insert("san_vertices".into(), json!([]));
                            }
                        }
                    }
                }
            }
            out.insert("res".into(), json!(res));
            out.insert("aux".into(), json!(aux));
            out.insert("canon".into(), json!(canon_ok));
            if sanitised {
                out.insert("api_read".into(), json!(api_read));
            }
            if !sanitised {
                raw = sets;
            }
        }
        Ok(Err(e)) => {
            if e.starts_with("TOOL:") {
                out.insert("outcome".into(), json!("toolerr"));
            } else {
                out.insert("outcome".into(), json!("err"));
            }
            out.insert("msg".into(), json!(e));
        }
        Err(e) => {
            out.insert("outcome".into(), json!("panic"));
            out.insert("msg".into(), json!(panic_msg(e)));
        }
    }
    out.insert("callbacks".into(), json!(n_callbacks));
    (out, raw)
}

pub fn run(jobs_path: &str, outdir: &str) -> Result<(), String> {
    let text = std::fs::read_to_string(jobs_path).map_err(|e| e.to_string())?;
    let jobs: Value = serde_json::from_str(&text).map_err(|e| e.to_string())?;
    std::fs::create_dir_all(outdir).map_err(|e| e.to_string())?;
    std::panic::set_hook(Box::new(|_| {}));
    let nets = jobs["nets"].as_array().ok_or("no nets")?;
    let cases = jobs["cases"].as_array().ok_or("no cases")?;
    for net in nets {
        let id = net["id"].as_str().ok_or("net without id")?;
        let model = net["model"].as_str().ok_or("net without model")?;
        let format = net["format"].as_str().unwrap_or("aeon");
        let bn = load_network(model, format).map_err(|e| format!("network {id}: {e}"))?;
        let mut st = NetState { bn: bn.clone(), graphs: HashMap::new(), canonical: None };
        let canon = SymbolicAsyncGraph::new(&bn).map_err(|e| format!("network {id}: {e}"))?;
        let unit = explicit_of(canon.unit_colored_vertices(), canon.symbolic_context(), &bn).tuples;
        let mut out_cases = Vec::new();
        for case in cases.iter().filter(|c| c["net"].as_str() == Some(id)) {
            let mut oc = case.as_object().cloned().unwrap_or_default();
            let mut calls_out = Vec::new();
            let mut prev: Vec<Vec<GraphColoredVertices>> = Vec::new();
            for call in case["calls"].as_array().cloned().unwrap_or_default() {
                let (res, raw) = run_call(&call, &mut st, &prev);
                prev.push(raw);
                let mut co = call.as_object().cloned().unwrap_or_default();
                for (k, v) in res {
                    co.insert(k, v);
                }
                calls_out.push(Value::Object(co));
            }
            oc.insert("calls".into(), json!(calls_out));
            out_cases.push(Value::Object(oc));
        }
        let doc = json!({"id": id, "net": describe_network(&bn), "unit_lib": unit, "model": model, "cases": out_cases});
        std::fs::write(format!("{outdir}/{id}.json"), serde_json::to_string(&doc).unwrap()).map_err(|e| e.to_string())?;
    }
    Ok(())
}

/// probe <in.json> : for a list of {id, model, format} report which load, their size and the
/// number of valid colours (used only to FILTER generated networks, never to judge).
pub fn probe(in_path: &str) -> Result<(), String> {
    let text = std::fs::read_to_string(in_path).map_err(|e| e.to_string())?;
    let nets: Value = serde_json::from_str(&text).map_err(|e| e.to_string())?;
    std::panic::set_hook(Box::new(|_| {}));
    let mut out = Vec::new();
    for net in nets.as_array().ok_or("expected a list")? {
        let id = net["id"].as_str().unwrap_or("");
        let model = net["model"].as_str().unwrap_or("");
        let format = net["format"].as_str().unwrap_or("aeon");
        let r = catch_unwind(AssertUnwindSafe(|| -> Result<Value, String> {
            let bn = load_network(model, format)?;
            let g = SymbolicAsyncGraph::new(&bn)?;
            let pbits = colour_rows(g.symbolic_context(), &bn).len();
            Ok(json!({"id": id, "ok": true, "n": bn.num_vars(), "pbits": pbits,
                "colours": g.unit_colors().approx_cardinality(),
                "vars": bn.variables().map(|v| bn.get_variable_name(v).clone()).collect::<Vec<_>>()}))
        }));
        match r {
            Ok(Ok(v)) => out.push(v),
            Ok(Err(e)) => out.push(json!({"id": id, "ok": false, "msg": e})),
            Err(e) => out.push(json!({"id": id, "ok": false, "msg": panic_msg(e)})),
        }
    }
    println!("{}", serde_json::to_string(&out).unwrap());
    Ok(())
}

pub fn build_ctx_set_pub(spec: &Value, g: &SymbolicAsyncGraph, bn: &BooleanNetwork) -> Result<GraphColoredVertices, String> {
    build_ctx_set(spec, g, bn, &[])
}
