//! Law replay on models too large for explicit semantics (C11, big halves of C10 / C20):
//! instantiates the laws READ FROM THE TLC-VERIFIED CATALOGUE with pseudo-random argument sets
//! and logs whether the implementation produced equal BDDs. Contains no law of its own.
use biodivine_hctl_model_checker::evaluation::LabelToSetMap;
use biodivine_hctl_model_checker::mc_utils::get_extended_symbolic_graph;
use biodivine_hctl_model_checker::model_checking::*;
use biodivine_hctl_model_checker::preprocessing::hctl_tree::HctlTreeNode;
use biodivine_lib_param_bn::biodivine_std::traits::Set;
use biodivine_lib_param_bn::symbolic_async_graph::reachability::Reachability;
use biodivine_lib_param_bn::symbolic_async_graph::{GraphColoredVertices, SymbolicAsyncGraph};
use biodivine_lib_param_bn::BooleanNetwork;
use serde_json::{json, Value};
use std::collections::HashMap;
use std::panic::{catch_unwind, AssertUnwindSafe};

fn arg_set(spec: &Value, g: &SymbolicAsyncGraph, props: &Vec<String>) -> Result<GraphColoredVertices, String> {
    match spec["t"].as_str().unwrap_or("") {
        "randbool" => {
            let tree = HctlTreeNode::new_random_boolean(spec["height"].as_u64().unwrap_or(3) as u8, props, spec["seed"].as_u64().unwrap_or(0));
            model_check_tree_dirty(tree, g)
        }
        "formula" => model_check_formula_dirty(spec["f"].as_str().unwrap_or("true"), g),
        // a single state (all variables fixed, pseudo-randomly) or its complement: sets whose
        // fixed-point iterations change by a handful of states only
        "cube" | "cocube" => {
            let mut seed = spec["seed"].as_u64().unwrap_or(1) | 1;
            let lits: Vec<String> = props
                .iter()
                .map(|p| {
                    seed ^= seed << 13;
                    seed ^= seed >> 7;
                    seed ^= seed << 17;
                    if seed & 1 == 1 { p.clone() } else { format!("~{p}") }
                })
                .collect();
            let f = format!("({})", lits.join(" & "));
            let f = if spec["t"].as_str() == Some("cocube") { format!("~{f}") } else { f };
            model_check_formula_dirty(&f, g)
        }
        "empty" => Ok(g.mk_empty_colored_vertices()),
        "unit" => Ok(g.mk_unit_colored_vertices()),
        x => Err(format!("unknown argument spec {x}")),
    }
}

pub fn run(job_path: &str, out_path: &str) -> Result<(), String> {
    let text = std::fs::read_to_string(job_path).map_err(|e| e.to_string())?;
    let job: Value = serde_json::from_str(&text).map_err(|e| e.to_string())?;
    std::panic::set_hook(Box::new(|_| {}));
    let bn = BooleanNetwork::try_from_file(job["model_path"].as_str().ok_or("no model_path")?)?;
    let k = job["k"].as_u64().unwrap_or(1) as u16;
    let g = get_extended_symbolic_graph(&bn, k)?;
    let props: Vec<String> = bn.variables().map(|v| bn.get_variable_name(v).clone()).collect();
    let mut facts = Vec::new();
    for inst in job["instances"].as_array().ok_or("no instances")? {
        let mut ctx: LabelToSetMap = HashMap::new();
        let mut sizes = serde_json::Map::new();
        for (label, spec) in inst["args"].as_object().ok_or("no args")? {
            let s = arg_set(spec, &g, &props)?.intersect(g.unit_colored_vertices());
            sizes.insert(label.clone(), json!(s.approx_cardinality()));
            ctx.insert(label.clone(), s);
        }
        for law in inst["laws"].as_array().ok_or("no laws")? {
            let id = law["id"].as_str().unwrap_or("");
            let lhs_t = law["lhs"].as_str().unwrap_or("");
            let t0 = std::time::Instant::now();
            let r = catch_unwind(AssertUnwindSafe(|| -> Result<(bool, f64, f64), String> {
                let lhs = model_check_extended_formula_dirty(lhs_t, &g, &ctx)?;
                let rhs = if let Some(o) = law["oracle"].as_str() {
                    let s = ctx.get("S").ok_or("oracle needs S")?;
                    match o {
                        "reach_backward" => g.reach_backward(s),
                        "trap_forward" => g.trap_forward(s),
                        "reach_backward_within" => {
                            let t = ctx.get("T").ok_or("oracle needs T")?;
                            let restricted = g.restrict(&s.union(t));
                            Reachability::reach_bwd(&restricted, t)
                        }
                        x => return Err(format!("unknown oracle {x}")),
                    }
                } else {
                    model_check_extended_formula_dirty(law["rhs"].as_str().unwrap_or(""), &g, &ctx)?
                };
                Ok((crate::enc::same_bdd(lhs.as_bdd(), rhs.as_bdd()), lhs.approx_cardinality(), rhs.approx_cardinality()))
            }));
            let ms = t0.elapsed().as_millis() as u64;
            facts.push(match r {
                Ok(Ok((eq, a, b))) => json!({"law": id, "inst": inst["id"], "outcome": "ok", "equal": eq, "lhs_card": a, "rhs_card": b, "ms": ms, "args": sizes}),
                Ok(Err(e)) => json!({"law": id, "inst": inst["id"], "outcome": "err", "msg": e, "equal": false}),
                Err(_) => json!({"law": id, "inst": inst["id"], "outcome": "panic", "equal": false}),
            });
        }
    }
    let doc = json!({"model": job["model_path"], "vars": props.len(), "colors": g.unit_colors().approx_cardinality(), "facts": facts});
    std::fs::write(out_path, serde_json::to_string(&doc).unwrap()).map_err(|e| e.to_string())
}
