//! Encoding between the library's symbolic objects and the explicit JSON values TLC reads.
//!
//! Colours are named by *what the unknown functions are*: the colour index is the bit mask of the
//! truth-table rows of all explicit parameters (in parameter-id order) followed by all implicit
//! functions (in variable-id order); inside one table the row index is sum_j arg_j * 2^j.
//! A state is the bit mask of its variable values in variable order. A (colour, state) pair is
//! the integer colour * 2^n + state.
//!
//! Nothing in this file decides whether an outcome is correct.

use biodivine_hctl_model_checker::preprocessing::hctl_tree::{HctlTreeNode, NodeType};
use biodivine_hctl_model_checker::preprocessing::operator_enums::*;
use biodivine_lib_bdd::{Bdd, BddValuation, BddVariable};
use biodivine_lib_param_bn::symbolic_async_graph::{GraphColoredVertices, SymbolicContext};
use biodivine_lib_param_bn::{BinaryOp as FnBin, BooleanNetwork, FnUpdate, Monotonicity};
use serde_json::{json, Value};

/// Truth-table row variables in the canonical colour order.
pub fn colour_rows(ctx: &SymbolicContext, bn: &BooleanNetwork) -> Vec<BddVariable> {
    let mut rows = Vec::new();
    for p in bn.parameters() {
        for (_, v) in ctx.get_explicit_function_table(p) {
            rows.push(v);
        }
    }
    for v in bn.variables() {
        if let Some(t) = ctx.get_implicit_function_table(v) {
            for (_, r) in t {
                rows.push(r);
            }
        }
    }
    rows
}

/// Explicit description of a symbolic set: the list of (colour, state) pairs (after existential
/// projection of all auxiliary state-variable copies) and whether the BDD depended on any
/// auxiliary variable at all.
pub struct Explicit {
    pub tuples: Vec<u64>,
    pub aux: bool,
    pub unknown_support: bool,
}

pub fn explicit_of_bdd(bdd: &Bdd, ctx: &SymbolicContext, bn: &BooleanNetwork) -> Explicit {
    let rows = colour_rows(ctx, bn);
    let svars = ctx.state_variables().clone();
    let extras = ctx.all_extra_state_variables().clone();
    let support = bdd.support_set();
    let aux = extras.iter().any(|v| support.contains(v));
    let unknown_support = support
        .iter()
        .any(|v| !rows.contains(v) && !svars.contains(v) && !extras.contains(v));
    let projected = if aux { bdd.exists(&extras) } else { bdd.clone() };
    let n = svars.len();
    let p = rows.len();
    assert!(n + p <= 22, "network too large for explicit enumeration");
    let num_vars = bdd.num_vars();
    let mut tuples = Vec::new();
    let mut val = BddValuation::all_false(num_vars);
    for c in 0..(1u64 << p) {
        for (k, r) in rows.iter().enumerate() {
            val.set_value(*r, (c >> k) & 1 == 1);
        }
        for s in 0..(1u64 << n) {
            for (k, v) in svars.iter().enumerate() {
                val.set_value(*v, (s >> k) & 1 == 1);
            }
            if projected.eval_in(&val) {
                tuples.push(c * (1u64 << n) + s);
            }
        }
    }
    Explicit {
        tuples,
        aux,
        unknown_support,
    }
}

pub fn explicit_of(set: &GraphColoredVertices, ctx: &SymbolicContext, bn: &BooleanNetwork) -> Explicit {
    explicit_of_bdd(set.as_bdd(), ctx, bn)
}

/// Build a symbolic set (over state and parameter variables only) from explicit pairs.
pub fn set_of_tuples(tuples: &[u64], ctx: &SymbolicContext, bn: &BooleanNetwork) -> GraphColoredVertices {
    let rows = colour_rows(ctx, bn);
    let svars = ctx.state_variables().clone();
    let n = svars.len();
    let vs = ctx.bdd_variable_set();
    let mut acc = vs.mk_false();
    for t in tuples {
        let c = t >> n;
        let s = t & ((1u64 << n) - 1);
        let mut cube = vs.mk_true();
        for (k, r) in rows.iter().enumerate() {
            cube = cube.and(&vs.mk_literal(*r, (c >> k) & 1 == 1));
        }
        for (k, v) in svars.iter().enumerate() {
            cube = cube.and(&vs.mk_literal(*v, (s >> k) & 1 == 1));
        }
        acc = acc.or(&cube);
    }
    GraphColoredVertices::new(acc, ctx)
}

fn fn_ast(f: &FnUpdate) -> Value {
    match f {
        FnUpdate::Const(v) => json!({"op":"const","val":*v}),
        FnUpdate::Var(id) => json!({"op":"var","i":id.to_index()+1}),
        FnUpdate::Not(a) => json!({"op":"not","a":fn_ast(a)}),
        FnUpdate::Binary(op, a, b) => {
            let o = match op {
                FnBin::And => "and",
                FnBin::Or => "or",
                FnBin::Xor => "xor",
                FnBin::Imp => "imp",
                FnBin::Iff => "iff",
            };
            json!({"op":o,"a":fn_ast(a),"b":fn_ast(b)})
        }
        FnUpdate::Param(id, args) => {
            let a: Vec<Value> = args.iter().map(fn_ast).collect();
            json!({"op":"param","p":id.to_index()+1,"args":a})
        }
    }
}

/// The network as data (1-based variable / parameter indices), read through the library's
/// parser only (the trusted part).
pub fn describe_network(bn: &BooleanNetwork) -> Value {
    let vars: Vec<String> = bn.variables().map(|v| bn.get_variable_name(v).clone()).collect();
    let regs: Vec<Value> = bn
        .as_graph()
        .regulations()
        .map(|r| {
            let sign = match r.get_monotonicity() {
                Some(Monotonicity::Activation) => "+",
                Some(Monotonicity::Inhibition) => "-",
                None => "?",
            };
            json!({"src": r.get_regulator().to_index()+1, "tgt": r.get_target().to_index()+1,
                   "obs": r.is_observable(), "sign": sign})
        })
        .collect();
    let params: Vec<Value> = bn
        .parameters()
        .map(|p| {
            let par = bn.get_parameter(p);
            json!({"name": par.get_name(), "arity": par.get_arity()})
        })
        .collect();
    let fns: Vec<Value> = bn
        .variables()
        .map(|v| match bn.get_update_function(v) {
            Some(f) => fn_ast(f),
            None => {
                let regs: Vec<usize> = bn.regulators(v).iter().map(|r| r.to_index() + 1).collect();
                json!({"op":"implicit","regs":regs})
            }
        })
        .collect();
    json!({"vars": vars, "regs": regs, "params": params, "fns": fns})
}

pub fn un_name(op: &UnaryOp) -> &'static str {
    match op {
        UnaryOp::Not => "not",
        UnaryOp::EX => "EX",
        UnaryOp::AX => "AX",
        UnaryOp::EF => "EF",
        UnaryOp::AF => "AF",
        UnaryOp::EG => "EG",
        UnaryOp::AG => "AG",
    }
}
pub fn bin_name(op: &BinaryOp) -> &'static str {
    match op {
        BinaryOp::And => "and",
        BinaryOp::Or => "or",
        BinaryOp::Xor => "xor",
        BinaryOp::Imp => "imp",
        BinaryOp::Iff => "iff",
        BinaryOp::EU => "EU",
        BinaryOp::AU => "AU",
        BinaryOp::EW => "EW",
        BinaryOp::AW => "AW",
    }
}
pub fn hyb_name(op: &HybridOp) -> &'static str {
    match op {
        HybridOp::Bind => "bind",
        HybridOp::Jump => "jump",
        HybridOp::Exists => "exists",
        HybridOp::Forall => "forall",
    }
}

/// Dump an implementation tree, node by node, with the stored text and height of every node.
pub fn dump_tree(t: &HctlTreeNode) -> Value {
    let mut v = match &t.node_type {
        NodeType::Terminal(Atomic::True) => json!({"op":"true"}),
        NodeType::Terminal(Atomic::False) => json!({"op":"false"}),
        NodeType::Terminal(Atomic::Prop(p)) => json!({"op":"prop","name":p}),
        NodeType::Terminal(Atomic::Var(x)) => json!({"op":"var","v":x}),
        NodeType::Terminal(Atomic::WildCardProp(p)) => json!({"op":"wild","name":p}),
        NodeType::Unary(op, a) => json!({"op":un_name(op),"a":dump_tree(a)}),
        NodeType::Binary(op, a, b) => json!({"op":bin_name(op),"a":dump_tree(a),"b":dump_tree(b)}),
        NodeType::Hybrid(op, var, dom, a) => json!({"op":hyb_name(op),"v":var,
            "dom": dom.clone().unwrap_or_default(), "a":dump_tree(a)}),
    };
    v["str"] = json!(t.formula_str);
    v["h"] = json!(t.height);
    v
}

/// Assemble a tree with the public constructors from a JSON description.
pub fn build_tree(v: &Value) -> Result<HctlTreeNode, String> {
    let op = v["op"].as_str().ok_or("no op")?;
    let s = |k: &str| v[k].as_str().unwrap_or("").to_string();
    Ok(match op {
        "true" => HctlTreeNode::mk_constant(true),
        "false" => HctlTreeNode::mk_constant(false),
        "prop" => HctlTreeNode::mk_proposition(&s("name")),
        "var" => HctlTreeNode::mk_variable(&s("v")),
        "wild" => HctlTreeNode::mk_wild_card(&s("name")),
        "not" | "EX" | "AX" | "EF" | "AF" | "EG" | "AG" => {
            let o = match op {
                "not" => UnaryOp::Not,
                "EX" => UnaryOp::EX,
                "AX" => UnaryOp::AX,
                "EF" => UnaryOp::EF,
                "AF" => UnaryOp::AF,
                "EG" => UnaryOp::EG,
                _ => UnaryOp::AG,
            };
            HctlTreeNode::mk_unary(build_tree(&v["a"])?, o)
        }
        "and" | "or" | "xor" | "imp" | "iff" | "EU" | "AU" | "EW" | "AW" => {
            let o = match op {
                "and" => BinaryOp::And,
                "or" => BinaryOp::Or,
                "xor" => BinaryOp::Xor,
                "imp" => BinaryOp::Imp,
                "iff" => BinaryOp::Iff,
                "EU" => BinaryOp::EU,
                "AU" => BinaryOp::AU,
                "EW" => BinaryOp::EW,
                _ => BinaryOp::AW,
            };
            HctlTreeNode::mk_binary(build_tree(&v["a"])?, build_tree(&v["b"])?, o)
        }
        "bind" | "jump" | "exists" | "forall" => {
            let o = match op {
                "bind" => HybridOp::Bind,
                "jump" => HybridOp::Jump,
                "exists" => HybridOp::Exists,
                _ => HybridOp::Forall,
            };
            let d = s("dom");
            let dom = if d.is_empty() { None } else { Some(d) };
            HctlTreeNode::mk_hybrid(build_tree(&v["a"])?, &s("v"), dom, o)
        }
        _ => return Err(format!("unknown op {op}")),
    })
}

/// The full relation of a raw set: tuples [colour, state, x_1, ..., x_k] (x_i = value of the i-th
/// auxiliary copy of the state variables).
pub fn explicit_full(bdd: &Bdd, ctx: &SymbolicContext, bn: &BooleanNetwork, k: usize) -> Vec<Vec<u64>> {
    let rows = colour_rows(ctx, bn);
    let svars = ctx.state_variables().clone();
    let n = svars.len();
    let p = rows.len();
    assert!(p + n * (k + 1) <= 16, "too large for a full dump");
    let copies: Vec<Vec<BddVariable>> = (0..k)
        .map(|i| bn.variables().map(|v| ctx.extra_state_variables(v)[i]).collect())
        .collect();
    let mut val = BddValuation::all_false(bdd.num_vars());
    let mut out = Vec::new();
    let total_h = 1u64 << (n * k);
    for c in 0..(1u64 << p) {
        for (j, r) in rows.iter().enumerate() {
            val.set_value(*r, (c >> j) & 1 == 1);
        }
        for h in 0..total_h {
            for i in 0..k {
                let hv = (h >> (i * n)) & ((1 << n) - 1);
                for (j, v) in copies[i].iter().enumerate() {
                    val.set_value(*v, (hv >> j) & 1 == 1);
                }
            }
            for s in 0..(1u64 << n) {
                for (j, v) in svars.iter().enumerate() {
                    val.set_value(*v, (s >> j) & 1 == 1);
                }
                if bdd.eval_in(&val) {
                    let mut tup = vec![c, s];
                    for i in 0..k {
                        tup.push((h >> (i * n)) & ((1 << n) - 1));
                    }
                    out.push(tup);
                }
            }
        }
    }
    out
}

/// Build a raw symbolic set from full tuples [colour, state, x_1, ..., x_k] (inverse of `explicit_full`).
#[allow(dead_code)]
pub fn set_of_full_tuples(tuples: &[Vec<u64>], ctx: &SymbolicContext, bn: &BooleanNetwork, k: usize) -> GraphColoredVertices {
    let rows = colour_rows(ctx, bn);
    let svars = ctx.state_variables().clone();
    let copies: Vec<Vec<BddVariable>> = (0..k)
        .map(|i| bn.variables().map(|v| ctx.extra_state_variables(v)[i]).collect())
        .collect();
    let vs = ctx.bdd_variable_set();
    let mut acc = vs.mk_false();
    for t in tuples {
        let mut cube = vs.mk_true();
        for (j, r) in rows.iter().enumerate() {
            cube = cube.and(&vs.mk_literal(*r, (t[0] >> j) & 1 == 1));
        }
        for (j, v) in svars.iter().enumerate() {
            cube = cube.and(&vs.mk_literal(*v, (t[1] >> j) & 1 == 1));
        }
        for i in 0..k {
            for (j, v) in copies[i].iter().enumerate() {
                cube = cube.and(&vs.mk_literal(*v, (t[2 + i] >> j) & 1 == 1));
            }
        }
        acc = acc.or(&cube);
    }
    GraphColoredVertices::new(acc, ctx)
}

/// Semantic equality of two BDDs over the same variable set (`==` on `Bdd` is STRUCTURAL: two BDDs that
/// denote the same set can differ in the order of their nodes, e.g. after `restrict` or a transfer).
pub fn same_bdd(a: &Bdd, b: &Bdd) -> bool {
    a.num_vars() == b.num_vars() && a.xor(b).is_false()
}
