//! Driver for the front end (tokenizer, parser, tree constructors, preprocessing, canonisation,
//! duplicate marking): runs the real functions on given strings / trees and records outcomes.
use crate::enc::*;
use biodivine_hctl_model_checker::evaluation::mark_duplicates::mark_duplicates_canonized_multiple;
use biodivine_hctl_model_checker::mc_utils::{
    check_hctl_var_support, collect_unique_hctl_vars, collect_unique_wild_cards, get_extended_symbolic_graph,
};
use biodivine_hctl_model_checker::preprocessing::hctl_tree::{HctlTreeNode, NodeType};
use biodivine_hctl_model_checker::preprocessing::operator_enums::*;
use biodivine_hctl_model_checker::preprocessing::parser::*;
use biodivine_hctl_model_checker::preprocessing::tokenizer::*;
use biodivine_hctl_model_checker::preprocessing::utils::validate_props_and_rename_vars;
use biodivine_lib_param_bn::symbolic_async_graph::SymbolicContext;
use biodivine_lib_param_bn::BooleanNetwork;
use serde_json::{json, Map, Value};
use std::panic::{catch_unwind, AssertUnwindSafe};

/// Characters with the classes the tokenizer itself distinguishes.
pub fn chars_of(text: &str) -> Value {
    let v: Vec<Value> = text
        .chars()
        .map(|c| {
            let k = if c.is_alphanumeric() || c == '_' {
                "n"
            } else if c.is_whitespace() {
                "s"
            } else {
                "o"
            };
            json!({"c": c.to_string(), "k": k})
        })
        .collect();
    json!(v)
}

fn tokens_json(ts: &[HctlToken]) -> Value {
    let v: Vec<Value> = ts
        .iter()
        .map(|t| match t {
            HctlToken::Unary(op) => json!({"k":"un","v": un_name(op)}),
            HctlToken::Binary(op) => json!({"k":"bin","v": bin_name(op)}),
            HctlToken::Hybrid(op, var, dom) => {
                json!({"k":"hyb","op":hyb_name(op),"var":var,"dom":dom.clone().unwrap_or_default()})
            }
            HctlToken::Atom(Atomic::Prop(n)) => json!({"k":"atom","t":"prop","name":n}),
            HctlToken::Atom(Atomic::Var(n)) => json!({"k":"atom","t":"var","name":n}),
            HctlToken::Atom(Atomic::WildCardProp(n)) => json!({"k":"atom","t":"wild","name":n}),
            HctlToken::Atom(Atomic::True) => json!({"k":"atom","t":"const","name":"True"}),
            HctlToken::Atom(Atomic::False) => json!({"k":"atom","t":"const","name":"False"}),
            HctlToken::Tokens(inner) => json!({"k":"grp","g":tokens_json(inner)}),
        })
        .collect();
    json!(v)
}

/// Pure structure of a tree (no stored text / height).
pub fn structure(t: &HctlTreeNode) -> Value {
    match &t.node_type {
        NodeType::Terminal(Atomic::True) => json!({"op":"true"}),
        NodeType::Terminal(Atomic::False) => json!({"op":"false"}),
        NodeType::Terminal(Atomic::Prop(p)) => json!({"op":"prop","name":p}),
        NodeType::Terminal(Atomic::Var(x)) => json!({"op":"var","v":x}),
        NodeType::Terminal(Atomic::WildCardProp(p)) => json!({"op":"wild","name":p}),
        NodeType::Unary(op, a) => json!({"op":un_name(op),"a":structure(a)}),
        NodeType::Binary(op, a, b) => json!({"op":bin_name(op),"a":structure(a),"b":structure(b)}),
        NodeType::Hybrid(op, var, dom, a) => {
            json!({"op":hyb_name(op),"v":var,"dom":dom.clone().unwrap_or_default(),"a":structure(a)})
        }
    }
}

fn guarded<T>(f: impl FnOnce() -> Result<T, String>) -> (String, Option<T>, String) {
    match catch_unwind(AssertUnwindSafe(f)) {
        Ok(Ok(v)) => ("ok".into(), Some(v), String::new()),
        Ok(Err(e)) => ("err".into(), None, e),
        Err(e) => {
            let m = if let Some(s) = e.downcast_ref::<String>() {
                s.clone()
            } else if let Some(s) = e.downcast_ref::<&str>() {
                s.to_string()
            } else {
                "panic".into()
            };
            ("panic".into(), None, m)
        }
    }
}

fn tree_record(out: &mut Map<String, Value>, prefix: &str, r: (String, Option<HctlTreeNode>, String)) -> Option<HctlTreeNode> {
    out.insert(format!("{prefix}_outcome"), json!(r.0));
    if !r.2.is_empty() {
        out.insert(format!("{prefix}_msg"), json!(r.2));
    }
    match &r.1 {
        Some(t) => {
            out.insert(format!("{prefix}_tree"), structure(t));
            out.insert(format!("{prefix}_full"), dump_tree(t));
        }
        None => {
            out.insert(format!("{prefix}_tree"), json!({"op":"REJECT"}));
            out.insert(format!("{prefix}_full"), json!({"op":"REJECT"}));
        }
    }
    r.1
}

pub fn run(in_path: &str, out_path: &str) -> Result<(), String> {
    let text = std::fs::read_to_string(in_path).map_err(|e| e.to_string())?;
    let doc: Value = serde_json::from_str(&text).map_err(|e| e.to_string())?;
    std::panic::set_hook(Box::new(|_| {}));
    let model = doc["model"].as_str().unwrap_or("a -?? a\n");
    let bn = BooleanNetwork::try_from(model)?;
    // preprocessing is handed the context of an EXTENDED graph by every model-checking entry point (it also holds
    // the spare copies `<var>_extra_<i>` and the parameter variables): use such a context here as well
    let ctx = if doc["plain_ctx"].as_bool().unwrap_or(false) {
        SymbolicContext::new(&bn)?
    } else {
        get_extended_symbolic_graph(&bn, 3)?.symbolic_context().clone()
    };
    let net_vars: Vec<String> = bn.variables().map(|v| bn.get_variable_name(v).clone()).collect();
    let mut events = Vec::new();
    for item in doc["items"].as_array().ok_or("no items")? {
        let mut out = item.as_object().cloned().unwrap_or_default();
        let kind = item["kind"].as_str().unwrap_or("parse");
        match kind {
            // text -> tokens / tree in both languages
            "parse" => {
                let s = item["text"].as_str().unwrap_or("").to_string();
                out.insert("chars".into(), chars_of(&s));
                for (mode, ext) in [("plain", false), ("ext", true)] {
                    let s1 = s.clone();
                    let r = guarded(move || {
                        if ext { try_tokenize_extended_formula(s1) } else { try_tokenize_formula(s1) }
                    });
                    out.insert(format!("{mode}_tok_outcome"), json!(r.0));
                    out.insert(format!("{mode}_tokens"), r.1.map(|t| tokens_json(&t)).unwrap_or(json!([])));
                    let s2 = s.clone();
                    let r = guarded(move || if ext { parse_extended_formula(&s2) } else { parse_hctl_formula(&s2) });
                    let tree = tree_record(&mut out, mode, r);
                    if let (true, Some(t)) = (ext, tree) {
                        let printed = t.to_string();
                        out.insert("ext_printed".into(), json!(printed));
                        out.insert("ext_printed_chars".into(), chars_of(&printed));
                        let r = guarded(move || parse_extended_formula(&printed));
                        tree_record(&mut out, "ext_reparsed", r);
                    }
                }
            }
            // tree assembled with the public constructors: stored text/height, print -> parse round trip
            "build" => {
                let spec = item["tree"].clone();
                let r = guarded(|| build_tree(&spec));
                if let Some(t) = tree_record(&mut out, "built", r) {
                    let printed = t.to_string();
                    out.insert("printed".into(), json!(printed));
                    out.insert("chars".into(), chars_of(&printed));
                    let p2 = printed.clone();
                    let r = guarded(move || parse_extended_formula(&p2));
                    tree_record(&mut out, "reparsed", r);
                }
            }
            // preprocessing: validate + rename, idempotence, variable counting, support check
            "prep" => {
                let s = item["text"].as_str().unwrap_or("").to_string();
                out.insert("chars".into(), chars_of(&s));
                let s2 = s.clone();
                let parsed = tree_record(&mut out, "parsed", guarded(move || parse_extended_formula(&s2)));
                if let Some(t) = parsed {
                    let c2 = ctx.clone();
                    let t2 = t.clone();
                    let prep = tree_record(&mut out, "prep", guarded(move || validate_props_and_rename_vars(t2, &c2)));
                    let s3 = s.clone();
                    let c3 = ctx.clone();
                    tree_record(&mut out, "minimized", guarded(move || parse_and_minimize_extended_formula(&c3, &s3)));
                    let s4 = s.clone();
                    let c4 = ctx.clone();
                    tree_record(&mut out, "minimized_plain", guarded(move || parse_and_minimize_hctl_formula(&c4, &s4)));
                    if let Some(p) = prep {
                        let c5 = ctx.clone();
                        let p2 = p.clone();
                        tree_record(&mut out, "prep2", guarded(move || validate_props_and_rename_vars(p2, &c5)));
                        let mut names: Vec<String> = collect_unique_hctl_vars(p.clone()).into_iter().collect();
                        names.sort();
                        out.insert("unique_vars".into(), json!(names));
                        let (wp, wd) = collect_unique_wild_cards(p.clone());
                        let mut wp: Vec<String> = wp.into_iter().collect();
                        wp.sort();
                        let mut wd: Vec<String> = wd.into_iter().collect();
                        wd.sort();
                        out.insert("wild_props".into(), json!(wp));
                        out.insert("wild_doms".into(), json!(wd));
                        let mut support = Vec::new();
                        for k in 0..5u16 {
                            let g = get_extended_symbolic_graph(&bn, k)?;
                            support.push(check_hctl_var_support(&g, p.clone()));
                        }
                        out.insert("support".into(), json!(support));
                    }
                }
            }
            // canonical forms of all sub-formulae + duplicate marking of a list of formulae
            "canon" => {
                let texts: Vec<String> = item["texts"].as_array().map(|a| a.iter().map(|x| x.as_str().unwrap_or("").to_string()).collect()).unwrap_or_default();
                let mut trees = Vec::new();
                let mut ok = true;
                for s in &texts {
                    match parse_and_minimize_extended_formula(&ctx, s) {
                        Ok(t) => trees.push(t),
                        Err(e) => {
                            ok = false;
                            out.insert("toolerr".into(), json!(format!("input does not preprocess: {e}")));
                        }
                    }
                }
                if ok {
                    out.insert("trees".into(), json!(trees.iter().map(structure).collect::<Vec<_>>()));
                    #[cfg(all(hctl_verif, feature = "canon_hook"))]
                    {
                        use biodivine_hctl_model_checker::evaluation::canonization_export::{get_canonical, get_canonical_and_renaming};
                        fn walk(t: &HctlTreeNode, acc: &mut Vec<Value>) {
                            let (canon, ren) = get_canonical_and_renaming(t.to_string());
                            let again = get_canonical(canon.clone());
                            let alone = get_canonical(t.to_string());
                            let mut pairs: Vec<(String, String)> = ren.into_iter().collect();
                            pairs.sort();
                            acc.push(json!({"tree": structure(t), "canon": canon, "canon_chars": chars_of(&canon),
                                "renaming": pairs.iter().map(|(a, b)| json!([a, b])).collect::<Vec<_>>(),
                                "canon_again": again, "canon_alone": alone}));
                            match &t.node_type {
                                NodeType::Terminal(_) => {}
                                NodeType::Unary(_, a) => walk(a, acc),
                                NodeType::Binary(_, a, b) => {
                                    walk(a, acc);
                                    walk(b, acc);
                                }
                                NodeType::Hybrid(_, _, _, a) => walk(a, acc),
                            }
                        }
                        let mut subs = Vec::new();
                        for t in &trees {
                            walk(t, &mut subs);
                        }
                        out.insert("subs".into(), json!(subs));
                    }
                    let r = catch_unwind(AssertUnwindSafe(|| mark_duplicates_canonized_multiple(&trees)));
                    match r {
                        Ok(d) => {
                            let mut v: Vec<Value> = d
                                .into_iter()
                                .map(|((f, doms), n)| {
                                    let dl: Vec<Value> = doms.into_iter().map(|(k, d)| json!([k, d.unwrap_or_default()])).collect();
                                    json!({"canon": f, "canon_chars": chars_of(&f), "doms": dl, "n": n})
                                })
                                .collect();
                            v.sort_by_key(|x| x["canon"].as_str().unwrap_or("").to_string());
                            out.insert("dups_outcome".into(), json!("ok"));
                            out.insert("dups".into(), json!(v));
                        }
                        Err(_) => {
                            out.insert("dups_outcome".into(), json!("panic"));
                            out.insert("dups".into(), json!([]));
                        }
                    }
                }
            }
            _ => return Err(format!("unknown item kind {kind}")),
        }
        events.push(Value::Object(out));
    }
    let doc = json!({"net_vars": net_vars, "events": events});
    std::fs::write(out_path, serde_json::to_string(&doc).unwrap()).map_err(|e| e.to_string())
}
