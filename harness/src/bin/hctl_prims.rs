//! hctl-prims: the primitive-level replay (spec/Trace_Rel.tla) as a SEPARATE binary. It calls private
//! functions of the crate through the cfg(hctl_verif) re-export, so a change of one of their signatures
//! stops it from compiling; the main harness (hctl-conf) and every property check must not depend on that.
#![allow(dead_code)]
#[path = "../enc.rs"]
mod enc;
#[path = "../prims.rs"]
mod prims;

fn main() {
    let args: Vec<String> = std::env::args().collect();
    if args.len() != 3 {
        eprintln!("usage: hctl-prims <jobs.json> <outdir>");
        std::process::exit(2);
    }
    if let Err(e) = prims::run(&args[1], &args[2]) {
        eprintln!("hctl-prims: {e}");
        std::process::exit(2);
    }
}
