//! hctl-conf: drives the real biodivine-hctl-model-checker code on generated inputs and records
//! what happened as JSON for TLC. Judging is done by TLC only.
mod enc;
mod cli;
mod laws;
mod sem;
mod syn;
mod wide;

fn main() {
    let args: Vec<String> = std::env::args().collect();
    let r = match args.get(1).map(|s| s.as_str()) {
        Some("sem") if args.len() == 4 => sem::run(&args[2], &args[3]),
        Some("syn") if args.len() == 4 => syn::run(&args[2], &args[3]),
        Some("laws") if args.len() == 4 => laws::run(&args[2], &args[3]),
        Some("wideslice") if args.len() == 3 => wide::run(&args[2]),
        Some("chars") if args.len() == 3 => std::fs::read_to_string(&args[2]).map_err(|e| e.to_string()).and_then(|t| {
            let v: serde_json::Value = serde_json::from_str(&t).map_err(|e| e.to_string())?;
            let out: Vec<serde_json::Value> = v.as_array().ok_or("list expected")?.iter().map(|s| syn::chars_of(s.as_str().unwrap_or(""))).collect();
            println!("{}", serde_json::Value::Array(out));
            Ok(())
        }),
        Some("arch") if args.len() == 5 => cli::arch(&args[2], &args[3], &args[4]),
        Some("convert") if args.len() == 3 => cli::convert(&args[2]),
        Some("readarch") if args.len() == 4 => cli::read_archive(&args[2], args[3].parse().unwrap_or(0)).map(|v| println!("{v}")),
        Some("dups") => { debug_dups(&args[2..]); Ok(()) }
        Some("probe") if args.len() == 3 => sem::probe(&args[2]),
        Some("describe") if args.len() == 4 => {
            // describe <format> <file>: print the network description JSON
            std::fs::read_to_string(&args[3])
                .map_err(|e| e.to_string())
                .and_then(|t| sem::load_network(&t, &args[2]))
                .map(|bn| println!("{}", enc::describe_network(&bn)))
        }
        _ => Err("usage: hctl-conf sem <jobs.json> <outdir> | describe <format> <file>".to_string()),
    };
    if let Err(e) = r {
        eprintln!("hctl-conf: {e}");
        std::process::exit(2);
    }
}

#[allow(dead_code)]
pub fn debug_dups(formulas: &[String]) {
    use biodivine_hctl_model_checker::evaluation::mark_duplicates::mark_duplicates_canonized_multiple;
    use biodivine_hctl_model_checker::preprocessing::parser::parse_extended_formula;
    let bn = biodivine_lib_param_bn::BooleanNetwork::try_from("a -?? b\nb -?? a\n").unwrap();
    let ctx = biodivine_lib_param_bn::symbolic_async_graph::SymbolicContext::new(&bn).unwrap();
    let trees: Vec<_> = formulas
        .iter()
        .map(|f| {
            biodivine_hctl_model_checker::preprocessing::utils::validate_props_and_rename_vars(
                parse_extended_formula(f).unwrap(),
                &ctx,
            )
            .unwrap()
        })
        .collect();
    for t in &trees {
        println!("{t}");
    }
    let d = mark_duplicates_canonized_multiple(&trees);
    for (k, v) in d {
        println!("{:?} -> {}", k, v);
    }
}
