//! Archives (C16) and helpers for the command-line checks (C17, C19): write / read result
//! archives through the library's own functions and report everything as explicit data.
use crate::enc::*;
use crate::sem::load_network;
use biodivine_hctl_model_checker::evaluation::LabelToSetMap;
use biodivine_hctl_model_checker::generate_output::build_result_archive;
use biodivine_hctl_model_checker::load_inputs::load_bdd_bundle;
use biodivine_hctl_model_checker::mc_utils::get_extended_symbolic_graph;
use biodivine_hctl_model_checker::model_checking::model_check_extended_formula_dirty;
use biodivine_lib_param_bn::BooleanNetwork;
use serde_json::{json, Map, Value};
use std::collections::HashMap;
use std::io::Read;
use std::panic::{catch_unwind, AssertUnwindSafe};

fn zip_entries(path: &str) -> Result<(Vec<String>, HashMap<String, String>), String> {
    let f = std::fs::File::open(path).map_err(|e| e.to_string())?;
    let mut z = zip::ZipArchive::new(f).map_err(|e| e.to_string())?;
    let mut names = Vec::new();
    let mut texts = HashMap::new();
    for i in 0..z.len() {
        let mut e = z.by_index(i).map_err(|e| e.to_string())?;
        let name = e.name().to_string();
        names.push(name.clone());
        if name == "model.aeon" || name == "formulae.txt" {
            let mut s = String::new();
            e.read_to_string(&mut s).map_err(|e| e.to_string())?;
            texts.insert(name, s);
        }
    }
    Ok((names, texts))
}

/// Read an archive back the documented way: graph rebuilt from the archived model with `k`
/// spare variable sets, sets loaded with `load_bdd_bundle`.
/// The archive written by the library's own driver `analysis::analyse_formulae` (plain formulae, no printing): read back
/// the documented way, next to the result of every line computed through the model-checking API on its own.
fn arch_via_analyse(job: &Value, dir: &str) -> Result<Map<String, Value>, String> {
    use biodivine_hctl_model_checker::analysis::analyse_formulae;
    use biodivine_hctl_model_checker::model_checking::model_check_formula_dirty;
    use biodivine_hctl_model_checker::result_print::PrintOptions;
    let mut m = Map::new();
    let id = job["id"].as_str().unwrap_or("x");
    let bn = load_network(job["model"].as_str().unwrap_or(""), job["format"].as_str().unwrap_or("aeon"))?;
    let k = job["k"].as_u64().unwrap_or(0) as u16;
    let formulae: Vec<String> = job["formulae"].as_array().map(|a| a.iter().map(|x| x.as_str().unwrap_or("").to_string()).collect()).unwrap_or_default();
    let path = format!("{dir}/{id}.zip");
    analyse_formulae(&bn, formulae.clone(), PrintOptions::NoPrint, Some(path.clone()), None)?;
    m.insert("archive".into(), json!(path));
    m.insert("net_in".into(), describe_network(&bn));
    let back = read_archive(&path, k)?;
    m.insert("back".into(), back);
    // every line on its own, through the API, on a graph with the same number of spare variable sets
    let g = get_extended_symbolic_graph(&bn, k)?;
    let mut lines = Vec::new();
    for f in &formulae {
        let r = model_check_formula_dirty(f, &g)?;
        lines.push(json!(explicit_of(&r, g.symbolic_context(), &bn).tuples));
    }
    m.insert("lines_lib".into(), json!(lines));
    Ok(m)
}

pub fn read_archive(path: &str, k: u16) -> Result<Value, String> {
    let (names, texts) = zip_entries(path)?;
    let model = texts.get("model.aeon").cloned().ok_or("archive without model.aeon")?;
    let bn = BooleanNetwork::try_from(model.as_str())?;
    let g = get_extended_symbolic_graph(&bn, k)?;
    let loaded = load_bdd_bundle(path, g.symbolic_context())?;
    let mut sets = Map::new();
    let mut aux = Map::new();
    for (label, set) in loaded.iter() {
        let e = explicit_of(set, g.symbolic_context(), &bn);
        sets.insert(label.clone(), json!(e.tuples));
        aux.insert(label.clone(), json!(e.aux || e.unknown_support));
    }
    let formulae: Vec<String> = texts.get("formulae.txt").map(|s| s.lines().map(|l| l.to_string()).collect()).unwrap_or_default();
    let mut names_sorted = names.clone();
    names_sorted.sort();
    Ok(json!({"entries": names_sorted, "model": model, "net": describe_network(&bn), "formulae": formulae,
              "has_formulae": texts.contains_key("formulae.txt"), "sets": sets, "aux": aux}))
}

/// arch <job.json> <out.json>: for every job {id, model, format, k, sets:{label: ctx spec}, formulae, probe}
/// write an archive with build_result_archive, read it back, and evaluate `probe` (an extended
/// formula over the labels) with the in-memory and with the reloaded sets.
pub fn arch(job_path: &str, out_path: &str, dir: &str) -> Result<(), String> {
    let text = std::fs::read_to_string(job_path).map_err(|e| e.to_string())?;
    let jobs: Value = serde_json::from_str(&text).map_err(|e| e.to_string())?;
    std::panic::set_hook(Box::new(|_| {}));
    std::fs::create_dir_all(dir).map_err(|e| e.to_string())?;
    let mut out = Vec::new();
    for job in jobs.as_array().ok_or("expected list")? {
        let mut o = job.as_object().cloned().unwrap_or_default();
        let id = job["id"].as_str().unwrap_or("x");
        let r = catch_unwind(AssertUnwindSafe(|| -> Result<Map<String, Value>, String> {
            if job["big"].as_bool().unwrap_or(false) {
                return arch_big(job, dir);
            }
            if job["via_analyse"].as_bool().unwrap_or(false) {
                return arch_via_analyse(job, dir);
            }
            let mut m = Map::new();
            let bn = load_network(job["model"].as_str().unwrap_or(""), job["format"].as_str().unwrap_or("aeon"))?;
            let k = job["k"].as_u64().unwrap_or(0) as u16;
            let g = get_extended_symbolic_graph(&bn, k)?;
            let mut sets: LabelToSetMap = HashMap::new();
            let mut written = Map::new();
            if let Some(specs) = job["sets"].as_object() {
                for (label, spec) in specs {
                    let s = crate::sem::build_ctx_set_pub(spec, &g, &bn)?;
                    written.insert(label.clone(), json!(explicit_of(&s, g.symbolic_context(), &bn).tuples));
                    sets.insert(label.clone(), s);
                }
            }
            m.insert("written".into(), Value::Object(written));
            m.insert("net_in".into(), describe_network(&bn));
            let formulae: Vec<String> = job["formulae"].as_array().map(|a| a.iter().map(|x| x.as_str().unwrap_or("").to_string()).collect()).unwrap_or_default();
            let path = format!("{dir}/{id}.zip");
            if job["overwrite"].as_bool().unwrap_or(false) {
                // history: the path already holds an OLDER, LARGER archive (an earlier run with more results)
                let mut old: LabelToSetMap = HashMap::new();
                old.insert("old_unit".to_string(), g.mk_unit_colored_vertices());
                for i in 0..25 {
                    for (l, s) in sets.iter() {
                        old.insert(format!("old_{i}_{l}"), s.clone());
                    }
                    old.insert(format!("old_{i}"), g.mk_unit_colored_vertices());
                }
                let old_formulae: Vec<String> = (0..40).map(|i| format!("AG EF (true & true & true & true) | {i}")).collect();
                build_result_archive(old, &path, bn.to_string().as_str(), old_formulae).map_err(|e| e.to_string())?;
                let ipath = format!("{dir}/{id}-initial.zip");
                std::fs::copy(&path, &ipath).map_err(|e| e.to_string())?;
            }
            build_result_archive(sets.clone(), &path, bn.to_string().as_str(), formulae).map_err(|e| e.to_string())?;
            m.insert("archive".into(), json!(path));
            // the archive without results (model + formula list only)
            {
                use biodivine_hctl_model_checker::generate_output::build_initial_archive;
                let ipath = format!("{dir}/{id}-initial.zip");
                let fl: Vec<String> = job["formulae"].as_array().map(|a| a.iter().map(|x| x.as_str().unwrap_or("").to_string()).collect()).unwrap_or_default();
                build_initial_archive(&ipath, bn.to_string().as_str(), fl).map_err(|e| e.to_string())?;
                let (mut names, texts) = zip_entries(&ipath)?;
                names.sort();
                let bn3 = BooleanNetwork::try_from(texts.get("model.aeon").ok_or("initial archive without model")?.as_str())?;
                m.insert("initial".into(), json!({"entries": names, "net": describe_network(&bn3),
                    "formulae": texts.get("formulae.txt").map(|s| s.lines().map(|l| l.to_string()).collect::<Vec<_>>()).unwrap_or_default()}));
            }
            let back = read_archive(&path, k)?;
            m.insert("back".into(), back.clone());
            // effect as wild-card context: in-memory vs reloaded
            if let Some(probe) = job["probe"].as_str() {
                let mem = model_check_extended_formula_dirty(probe, &g, &sets)?;
                m.insert("probe_mem".into(), json!(explicit_of(&mem, g.symbolic_context(), &bn).tuples));
                let bn2 = BooleanNetwork::try_from(back["model"].as_str().unwrap_or(""))?;
                let g2 = get_extended_symbolic_graph(&bn2, k)?;
                let loaded = load_bdd_bundle(&path, g2.symbolic_context())?;
                let rel = model_check_extended_formula_dirty(probe, &g2, &loaded)?;
                m.insert("probe_reloaded".into(), json!(explicit_of(&rel, g2.symbolic_context(), &bn2).tuples));
            }
            Ok(m)
        }));
        match r {
            Ok(Ok(m)) => {
                o.insert("outcome".into(), json!("ok"));
                for (k, v) in m {
                    o.insert(k, v);
                }
            }
            Ok(Err(e)) => {
                o.insert("outcome".into(), json!("err"));
                o.insert("msg".into(), json!(e));
            }
            Err(_) => {
                o.insert("outcome".into(), json!("panic"));
            }
        }
        out.push(Value::Object(o));
    }
    std::fs::write(out_path, serde_json::to_string(&json!({"events": out})).unwrap()).map_err(|e| e.to_string())
}

/// One archive round trip on a network too large for explicit sets: only BDD-level facts are logged
/// (reloaded set == written set, sizes), to be checked against the specification by Trace_Arch.
pub fn arch_big(job: &Value, dir: &str) -> Result<Map<String, Value>, String> {
    use biodivine_hctl_model_checker::model_checking::model_check_tree_dirty;
    use biodivine_hctl_model_checker::preprocessing::hctl_tree::HctlTreeNode;
    let n = job["ring"].as_u64().unwrap_or(24) as usize;
    let mut model = String::new();
    for i in 0..n {
        let j = (i + 1) % n;
        model.push_str(&format!("v{i} -> v{j}\n$v{j}: v{i}\n"));
    }
    // break the symmetry: one inhibition
    let model = model.replacen("v0 -> v1\n$v1: v0", "v0 -| v1\n$v1: !v0", 1);
    let bn = BooleanNetwork::try_from(model.as_str())?;
    let k = job["k"].as_u64().unwrap_or(1) as u16;
    let g = get_extended_symbolic_graph(&bn, k)?;
    let props: Vec<String> = bn.variables().map(|v| bn.get_variable_name(v).clone()).collect();
    let mut sets: LabelToSetMap = HashMap::new();
    let mut nodes = Map::new();
    for (label, spec) in job["sets"].as_object().ok_or("no sets")? {
        let tree = HctlTreeNode::new_random_boolean(spec["height"].as_u64().unwrap_or(9) as u8, &props, spec["seed"].as_u64().unwrap_or(0));
        let s = model_check_tree_dirty(tree, &g)?;
        nodes.insert(label.clone(), json!(s.as_bdd().size()));
        sets.insert(label.clone(), s);
    }
    let id = job["id"].as_str().unwrap_or("big");
    let path = format!("{dir}/{id}.zip");
    let formulae: Vec<String> = job["formulae"].as_array().map(|a| a.iter().map(|x| x.as_str().unwrap_or("").to_string()).collect()).unwrap_or_default();
    build_result_archive(sets.clone(), &path, bn.to_string().as_str(), formulae).map_err(|e| e.to_string())?;
    let (names, texts) = zip_entries(&path)?;
    let bn2 = BooleanNetwork::try_from(texts.get("model.aeon").ok_or("no model.aeon")?.as_str())?;
    let g2 = get_extended_symbolic_graph(&bn2, k)?;
    let loaded = load_bdd_bundle(&path, g2.symbolic_context())?;
    let mut equal = Map::new();
    for (label, s) in sets.iter() {
        equal.insert(label.clone(), json!(loaded.get(label).map(|l| same_bdd(l.as_bdd(), s.as_bdd())).unwrap_or(false)));
    }
    let mut m = Map::new();
    let mut names_sorted = names.clone();
    names_sorted.sort();
    m.insert("entries".into(), json!(names_sorted));
    m.insert("labels".into(), json!(sets.keys().cloned().collect::<Vec<_>>()));
    m.insert("loaded_labels".into(), json!(loaded.keys().cloned().collect::<Vec<_>>()));
    m.insert("big_equal".into(), Value::Object(equal));
    m.insert("bdd_nodes".into(), Value::Object(nodes));
    m.insert("archive_bytes".into(), json!(std::fs::metadata(&path).map(|x| x.len()).unwrap_or(0)));
    m.insert("back_formulae".into(), json!(texts.get("formulae.txt").map(|s| s.lines().map(|l| l.to_string()).collect::<Vec<_>>()).unwrap_or_default()));
    if let Some(probe) = job["probe"].as_str() {
        let a = model_check_extended_formula_dirty(probe, &g, &sets)?;
        let b = model_check_extended_formula_dirty(probe, &g2, &loaded)?;
        m.insert("probe_equal".into(), json!(same_bdd(a.as_bdd(), b.as_bdd())));
    }
    let _ = std::fs::remove_file(&path);
    Ok(m)
}

/// convert <aeon file> : print {"bnet": text|null, "sbml": text} of the same network
pub fn convert(path: &str) -> Result<(), String> {
    let text = std::fs::read_to_string(path).map_err(|e| e.to_string())?;
    let bn = BooleanNetwork::try_from(text.as_str())?;
    let bnet = bn.to_bnet(false).ok();
    let sbml = bn.to_sbml(None);
    println!("{}", json!({"bnet": bnet, "sbml": sbml}));
    Ok(())
}
