SPECIFICATION Spec
INVARIANT StateOK
PROPERTY Finishes
CHECK_DEADLOCK FALSE
