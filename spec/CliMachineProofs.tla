----------------------------- MODULE CliMachineProofs -----------------------------
(***************************************************************************)
(* TLAPS proof, for every number of formulae, that the control skeleton of *)
(* the command-line tool (CliMachine.tla) reports formulae in file order,  *)
(* fails quietly without touching an older archive, replaces the archive   *)
(* when it writes one, and reports and archives every formula of a         *)
(* finished run.                                                           *)
(***************************************************************************)
EXTENDS CliMachine, TLAPS

(* ---- the inductive invariant ---- *)
TypeOK == /\ pc \in {"start", "eval", "done", "failed"} /\ i \in Nat /\ nEff \in Nat
          /\ fails \in BOOLEAN /\ opt \in Opts /\ out \in BOOLEAN
          /\ printed \in Seq([what : {"message", "summary", "listing"}, idx : Nat])
          /\ archive \in [written : BOOLEAN, old : BOOLEAN, n : Nat]
IndInv ==
  /\ TypeOK
  /\ pc = "start" => i = 1 /\ printed = <<>> /\ ~archive.written /\ archive.n = 0
  /\ pc = "failed" => printed = <<Item("message", 0)>> /\ ~archive.written /\ archive.n = 0
  /\ pc \in {"eval", "done"} =>
       /\ 1 <= i /\ i <= nEff + 1
       /\ \A a \in 1..Len(printed) : printed[a].what # "message" /\ 1 <= printed[a].idx /\ printed[a].idx < i
       /\ InOrder
       /\ (opt # "no-print" => \A j \in 1..(i - 1) : \E a \in 1..Len(printed) : printed[a] = Item("summary", j))
  /\ pc = "eval" => ~archive.written /\ archive.n = 0
  /\ pc = "done" => i = nEff + 1 /\ (out => archive.written) /\ (~out => ~archive.written /\ archive.n = 0)
  /\ archive.written => ~archive.old /\ archive.n = nEff

LEMMA InitInd == Init => IndInv
BY DEF Init, IndInv, TypeOK, InOrder, Opts, Item

LEMMA Step == IndInv /\ [Next]_vars => IndInv'
<1> SUFFICES ASSUME IndInv, [Next]_vars PROVE IndInv' OBVIOUS
<1>1. CASE Fail
  BY <1>1 DEF Fail, Params, IndInv, TypeOK, InOrder, Item, Opts
<1>2. CASE Prepare
  BY <1>2 DEF Prepare, Params, IndInv, TypeOK, InOrder, Item, Opts
<1>3. CASE Eval
  <2>0. /\ pc = "eval" /\ i <= nEff /\ i' = i + 1 /\ UNCHANGED <<pc, archive, nEff, fails, opt, out>>
    BY <1>3 DEF Eval, Params
  <2>1. CASE opt = "no-print"
    <3>1. printed' = printed BY <1>3, <2>1 DEF Eval, IndInv, TypeOK
    <3> QED BY <2>0, <2>1, <3>1 DEF IndInv, TypeOK, InOrder, Item, Opts
  <2>2. CASE opt \in {"summary", "with-progress"}
    <3>1. printed' = printed \o <<Item("summary", i)>> BY <1>3, <2>2 DEF Eval
    <3>2. /\ Len(printed') = Len(printed) + 1
          /\ \A a \in 1..Len(printed) : printed'[a] = printed[a]
          /\ printed'[Len(printed) + 1] = Item("summary", i)
      BY <3>1 DEF IndInv, TypeOK
    <3>3. printed' \in Seq([what : {"message", "summary", "listing"}, idx : Nat])
      BY <3>1 DEF IndInv, TypeOK, Item
    <3>4. \A a \in 1..Len(printed') : printed'[a].what # "message" /\ 1 <= printed'[a].idx /\ printed'[a].idx < i'
      BY <2>0, <3>2 DEF IndInv, TypeOK, Item
    <3>5. InOrder'
      BY <2>0, <3>2 DEF IndInv, TypeOK, InOrder, Item
    <3>6. \A j \in 1..(i' - 1) : \E a \in 1..Len(printed') : printed'[a] = Item("summary", j)
      <4> SUFFICES ASSUME NEW j \in 1..(i' - 1) PROVE \E a \in 1..Len(printed') : printed'[a] = Item("summary", j) OBVIOUS
      <4>1. CASE j = i BY <4>1, <3>2 DEF IndInv, TypeOK
      <4>2. CASE j # i
        <5>1. j \in 1..(i - 1) BY <4>2, <2>0 DEF IndInv, TypeOK
        <5>2. \E a \in 1..Len(printed) : printed[a] = Item("summary", j) BY <5>1, <2>0, <2>2 DEF IndInv, Opts
        <5> QED BY <5>2, <3>2 DEF IndInv, TypeOK
      <4> QED BY <4>1, <4>2
    <3> QED BY <2>0, <3>3, <3>4, <3>5, <3>6 DEF IndInv, TypeOK
  <2>3. CASE opt = "exhaustive"
    <3>1. printed' = printed \o <<Item("summary", i), Item("listing", i)>> BY <1>3, <2>3 DEF Eval
    <3>2. /\ Len(printed') = Len(printed) + 2
          /\ \A a \in 1..Len(printed) : printed'[a] = printed[a]
          /\ printed'[Len(printed) + 1] = Item("summary", i)
          /\ printed'[Len(printed) + 2] = Item("listing", i)
      BY <3>1 DEF IndInv, TypeOK
    <3>3. printed' \in Seq([what : {"message", "summary", "listing"}, idx : Nat])
      BY <3>1 DEF IndInv, TypeOK, Item
    <3>4. \A a \in 1..Len(printed') : printed'[a].what # "message" /\ 1 <= printed'[a].idx /\ printed'[a].idx < i'
      BY <2>0, <3>2 DEF IndInv, TypeOK, Item
    <3>5. InOrder'
      BY <2>0, <3>2 DEF IndInv, TypeOK, InOrder, Item
    <3>6. \A j \in 1..(i' - 1) : \E a \in 1..Len(printed') : printed'[a] = Item("summary", j)
      <4> SUFFICES ASSUME NEW j \in 1..(i' - 1) PROVE \E a \in 1..Len(printed') : printed'[a] = Item("summary", j) OBVIOUS
      <4>1. CASE j = i BY <4>1, <3>2 DEF IndInv, TypeOK
      <4>2. CASE j # i
        <5>1. j \in 1..(i - 1) BY <4>2, <2>0 DEF IndInv, TypeOK
        <5>2. \E a \in 1..Len(printed) : printed[a] = Item("summary", j) BY <5>1, <2>0, <2>3 DEF IndInv, Opts
        <5> QED BY <5>2, <3>2 DEF IndInv, TypeOK
      <4> QED BY <4>1, <4>2
    <3> QED BY <2>0, <3>3, <3>4, <3>5, <3>6 DEF IndInv, TypeOK
  <2> QED BY <2>1, <2>2, <2>3 DEF IndInv, TypeOK, Opts
<1>4. CASE Write
  BY <1>4 DEF Write, Params, IndInv, TypeOK, InOrder, Item, Opts
<1>5. CASE Finish
  BY <1>5 DEF Finish, Params, IndInv, TypeOK, InOrder, Item, Opts
<1>6. CASE UNCHANGED vars
  BY <1>6 DEF vars, IndInv, TypeOK, InOrder, Item, Opts
<1> QED BY <1>1, <1>2, <1>3, <1>4, <1>5, <1>6 DEF Next

THEOREM Safety == Spec => [](InOrder /\ FailQuiet /\ FailKeepsOld /\ Replaced /\ Complete)
<1>1. IndInv => InOrder /\ FailQuiet /\ FailKeepsOld /\ Replaced /\ Complete
  BY DEF IndInv, TypeOK, InOrder, FailQuiet, FailKeepsOld, Replaced, Complete, Item
<1> QED BY InitInd, Step, <1>1, PTL DEF Spec
=============================================================================
