-------------------------------- MODULE Hctl --------------------------------
(***************************************************************************)
(* Syntax and reference semantics of (extended) HCTL over one Kripke       *)
(* structure K : S -> SUBSET S (total: every state has a successor).       *)
(*                                                                         *)
(* Formulae are records (the JSON shape used everywhere in this suite):    *)
(*   [op |-> "true"|"false"], [op |-> "prop", name], [op |-> "var", v],    *)
(*   [op |-> "wild", name],                                                *)
(*   [op |-> "not"|"EX"|"AX"|"EF"|"AF"|"EG"|"AG", a],                      *)
(*   [op |-> "and"|"or"|"xor"|"imp"|"iff"|"EU"|"AU"|"EW"|"AW", a, b],      *)
(*   [op |-> "bind"|"jump"|"exists"|"forall", v, dom, a]   (dom = "" : none)*)
(*                                                                         *)
(* Sat(K, S, P, D, f, h): the set of states satisfying f, where            *)
(*   P[name] is the set of states where proposition `name` holds,          *)
(*   D is a function label -> set of states (wild-cards and domains of the *)
(*   colour under consideration), h a valuation of the state variables.    *)
(* The definition is point-wise and by least / greatest fixed points; it   *)
(* mentions neither BDDs nor relations over variable copies nor a cache.   *)
(***************************************************************************)
EXTENDS Naturals, Sequences, FiniteSets, TLC

UnaryOps  == {"not", "EX", "AX", "EF", "AF", "EG", "AG"}
BinaryOps == {"and", "or", "xor", "imp", "iff", "EU", "AU", "EW", "AW"}
HybridOps == {"bind", "jump", "exists", "forall"}
Quantifiers == {"bind", "exists", "forall"}

EXs(K, S, X) == {s \in S : K[s] \cap X # {}}
AXs(K, S, X) == {s \in S : K[s] \subseteq X}
RECURSIVE LfpE(_,_,_,_), LfpA(_,_,_,_), GfpE(_,_,_)
LfpE(K, S, A, Z) == LET Z2 == Z \cup (A \cap EXs(K, S, Z)) IN IF Z2 = Z THEN Z ELSE LfpE(K, S, A, Z2)
LfpA(K, S, A, Z) == LET Z2 == Z \cup (A \cap AXs(K, S, Z)) IN IF Z2 = Z THEN Z ELSE LfpA(K, S, A, Z2)
GfpE(K, S, Z)    == LET Z2 == Z \cap EXs(K, S, Z) IN IF Z2 = Z THEN Z ELSE GfpE(K, S, Z2)

Dom(S, D, f) == IF f.dom = "" THEN S ELSE D[f.dom]

RECURSIVE Sat(_,_,_,_,_,_)
Sat(K, S, P, D, f, h) ==
  CASE f.op = "true"  -> S
    [] f.op = "false" -> {}
    [] f.op = "prop"  -> P[f.name]
    [] f.op = "wild"  -> D[f.name]
    [] f.op = "var"   -> {h[f.v]}
    [] f.op = "not"   -> S \ Sat(K, S, P, D, f.a, h)
    [] f.op = "and"   -> Sat(K, S, P, D, f.a, h) \cap Sat(K, S, P, D, f.b, h)
    [] f.op = "or"    -> Sat(K, S, P, D, f.a, h) \cup Sat(K, S, P, D, f.b, h)
    [] f.op = "xor"   -> LET A == Sat(K, S, P, D, f.a, h) B == Sat(K, S, P, D, f.b, h) IN (A \ B) \cup (B \ A)
    [] f.op = "imp"   -> (S \ Sat(K, S, P, D, f.a, h)) \cup Sat(K, S, P, D, f.b, h)
    [] f.op = "iff"   -> LET A == Sat(K, S, P, D, f.a, h) B == Sat(K, S, P, D, f.b, h) IN S \ ((A \ B) \cup (B \ A))
    [] f.op = "EX"    -> EXs(K, S, Sat(K, S, P, D, f.a, h))
    [] f.op = "AX"    -> AXs(K, S, Sat(K, S, P, D, f.a, h))
    [] f.op = "EF"    -> LfpE(K, S, S, Sat(K, S, P, D, f.a, h))
    [] f.op = "AF"    -> LfpA(K, S, S, Sat(K, S, P, D, f.a, h))
    [] f.op = "EG"    -> GfpE(K, S, Sat(K, S, P, D, f.a, h))
    [] f.op = "AG"    -> S \ LfpE(K, S, S, S \ Sat(K, S, P, D, f.a, h))
    [] f.op = "EU"    -> LfpE(K, S, Sat(K, S, P, D, f.a, h), Sat(K, S, P, D, f.b, h))
    [] f.op = "AU"    -> LfpA(K, S, Sat(K, S, P, D, f.a, h), Sat(K, S, P, D, f.b, h))
    \* weak until:  E[a W b] = E[a U b] \/ EG a ;  A[a W b] = ~E[~b U (~a /\ ~b)]
    [] f.op = "EW"    -> LET A == Sat(K, S, P, D, f.a, h) B == Sat(K, S, P, D, f.b, h)
                         IN  LfpE(K, S, A, B) \cup GfpE(K, S, A)
    [] f.op = "AW"    -> LET A == Sat(K, S, P, D, f.a, h) B == Sat(K, S, P, D, f.b, h)
                         IN  S \ LfpE(K, S, S \ B, (S \ A) \cap (S \ B))
    \* hybrid operators; a domain restricts the range of the variable (bind: the current state)
    [] f.op = "bind"   -> {s \in Dom(S, D, f) : s \in Sat(K, S, P, D, f.a, (f.v :> s) @@ h)}
    [] f.op = "jump"   -> IF h[f.v] \in Sat(K, S, P, D, f.a, h) THEN S ELSE {}
    [] f.op = "exists" -> UNION {Sat(K, S, P, D, f.a, (f.v :> v) @@ h) : v \in Dom(S, D, f)}
    [] f.op = "forall" -> {s \in S : \A v \in Dom(S, D, f) : s \in Sat(K, S, P, D, f.a, (f.v :> v) @@ h)}

(* ---- syntactic notions ---- *)
RECURSIVE FreeVars(_)
FreeVars(f) ==
  CASE f.op \in {"true", "false", "prop", "wild"} -> {}
    [] f.op = "var" -> {f.v}
    [] f.op \in UnaryOps -> FreeVars(f.a)
    [] f.op \in BinaryOps -> FreeVars(f.a) \cup FreeVars(f.b)
    [] f.op = "jump" -> FreeVars(f.a) \cup {f.v}
    [] f.op \in Quantifiers -> FreeVars(f.a) \ {f.v}
Closed(f) == FreeVars(f) = {}

RECURSIVE Depth(_)      \* maximal quantifier nesting
Depth(f) ==
  CASE f.op \in {"true", "false", "prop", "wild", "var"} -> 0
    [] f.op \in UnaryOps -> Depth(f.a)
    [] f.op \in BinaryOps -> LET x == Depth(f.a) y == Depth(f.b) IN IF x > y THEN x ELSE y
    [] f.op = "jump" -> Depth(f.a)
    [] f.op \in Quantifiers -> 1 + Depth(f.a)

RECURSIVE Ops(_)        \* the set of operators occurring in f
Ops(f) ==
  CASE f.op \in {"true", "false", "prop", "wild", "var"} -> {f.op}
    [] f.op \in UnaryOps -> {f.op} \cup Ops(f.a)
    [] f.op \in BinaryOps -> {f.op} \cup Ops(f.a) \cup Ops(f.b)
    [] f.op \in HybridOps -> {f.op} \cup Ops(f.a)
(* C18: formulae on which self-loops cannot matter *)
Fragment18(f) == Ops(f) \cap {"EX", "AX", "AF", "EG", "AU", "EW"} = {}

RECURSIVE Labels(_)     \* wild-card and domain labels occurring in f
Labels(f) ==
  CASE f.op = "wild" -> {f.name}
    [] f.op \in {"true", "false", "prop", "var"} -> {}
    [] f.op \in UnaryOps -> Labels(f.a)
    [] f.op \in BinaryOps -> Labels(f.a) \cup Labels(f.b)
    [] f.op \in HybridOps -> Labels(f.a) \cup (IF f.dom = "" THEN {} ELSE {f.dom})

(* ---- well-formedness (C07 / C14): binding and propositions ---- *)
RECURSIVE WellScoped(_, _)
WellScoped(f, B) ==     \* B: the variables in whose scope f stands
  CASE f.op \in {"true", "false", "prop", "wild"} -> TRUE
    [] f.op = "var" -> f.v \in B
    [] f.op \in UnaryOps -> WellScoped(f.a, B)
    [] f.op \in BinaryOps -> WellScoped(f.a, B) /\ WellScoped(f.b, B)
    [] f.op = "jump" -> f.v \in B /\ WellScoped(f.a, B)
    [] f.op \in Quantifiers -> f.v \notin B /\ WellScoped(f.a, B \cup {f.v})
RECURSIVE Props(_)
Props(f) ==
  CASE f.op = "prop" -> {f.name}
    [] f.op \in {"true", "false", "wild", "var"} -> {}
    [] f.op \in UnaryOps -> Props(f.a)
    [] f.op \in BinaryOps -> Props(f.a) \cup Props(f.b)
    [] f.op \in HybridOps -> Props(f.a)
=============================================================================
