----------------------------- MODULE Trace_Slice -----------------------------
(***************************************************************************)
(* Mode C for C20 on networks whose coloured state space is beyond         *)
(* explicit semantics (2^60 and more pairs): the harness logs FACTS        *)
(* measured on BDDs - for a network N, a closed formula f and a colour c:  *)
(* is c valid; did both evaluations succeed; is the result of f on N       *)
(* restricted to c EQUAL (as a set of states) to the result of f on the    *)
(* network instantiated by c.  C20 demands equality for every valid c.     *)
(* Like Trace_Laws this compares two computations of the implementation,   *)
(* not both with the reference semantics (Trace_Sem does that on small     *)
(* networks, kind "slice").                                                *)
(***************************************************************************)
EXTENDS Json, IOUtils, TLC, Sequences, Naturals
Doc == JsonDeserialize(IOEnv.CASEFILE)
B2S(b) == IF b THEN "T" ELSE "F"
FactOk(f) == f.valid => (f.outcome = "ok" /\ f.equal)
VARIABLE fi
Init == fi \in 1..Len(Doc.facts)
Next == UNCHANGED fi
Verdict == LET f == Doc.facts[fi] IN PrintT(<<"VERDICT", f.id, <<B2S(FactOk(f))>>>>)
=============================================================================
