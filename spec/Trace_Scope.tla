---------------------------- MODULE Trace_Scope ----------------------------
(***************************************************************************)
(* Mode C for preprocessing, canonisation and duplicate marking (C07, C09).*)
(* Events are recorded by `hctl-conf syn`:                                 *)
(*  "prep"  : text; tree from parse_extended_formula; outcome/tree of      *)
(*            validate_props_and_rename_vars, of applying it twice, of     *)
(*            parse_and_minimize_(extended_|hctl_)formula; collected       *)
(*            variable names; support check for k = 0..4                   *)
(*  "canon" : a list of formulae; their preprocessed trees; for every      *)
(*            sub-formula the canonical text and renaming returned by      *)
(*            get_canonical_and_renaming; the map returned by              *)
(*            mark_duplicates_canonized_multiple                           *)
(***************************************************************************)
EXTENDS Scope, Json, IOUtils

Doc == JsonDeserialize(IOEnv.CASEFILE)
NetVars == {Doc.net_vars[i] : i \in 1..Len(Doc.net_vars)}
B2S(b) == IF b THEN "T" ELSE "F"
ToSet(q) == {q[j] : j \in 1..Len(q)}

(* ---- C07 ---- *)
Acceptable(t) == WellScoped(t, {}) /\ Props(t) \subseteq NetVars
IsPlain(t) == WildProps(t) = {} /\ DomLabels(t) = {}
JC07(e) ==
  IF e.parsed_outcome # "ok" THEN TRUE     \* not a formula: nothing to preprocess (C05's business)
  ELSE LET t == e.parsed_tree IN
    IF ~Acceptable(t)
    THEN e.prep_outcome = "err" /\ e.minimized_outcome = "err" /\ e.minimized_plain_outcome = "err"
    ELSE LET r == e.prep_tree IN
      /\ e.prep_outcome = "ok"
      /\ AlphaEq(r, t)                                  \* alpha-equivalent to the input
      /\ DepthNamed(r, 0)                               \* quantifiers named by nesting depth
      /\ Cardinality(QuantNames(r)) = Depth(t)          \* as many names as the maximal nesting
      /\ r = Rename(t)                                  \* and it is exactly the specified renaming
      /\ e.prep2_outcome = "ok" /\ e.prep2_tree = r     \* idempotent
      /\ e.minimized_outcome = "ok" /\ e.minimized_tree = r
      /\ (IF IsPlain(t) THEN e.minimized_plain_outcome = "ok" /\ e.minimized_plain_tree = r
                        ELSE e.minimized_plain_outcome = "err")
      /\ ToSet(e.unique_vars) = QuantNames(r)
      /\ ToSet(e.wild_props) = WildProps(r) /\ ToSet(e.wild_doms) = DomLabels(r)
      /\ \A k \in 1..Len(e.support) : e.support[k] = (Depth(t) <= k - 1)

(* ---- C09: canonical forms ---- *)
RenMap(s) == [x \in {s.renaming[i][1] : i \in 1..Len(s.renaming)} |->
                (CHOOSE i \in 1..Len(s.renaming) : s.renaming[i][1] = x) ]
RenOf(s, x) == s.renaming[RenMap(s)[x]][2]
JC09canon(e) ==
  LET S == e.subs n == Len(S) IN
  /\ \A i \in 1..n :
       LET s == S[i] fv == FreeVars(s.tree) c == ParseChars(s.canon_chars, TRUE) IN
         \* the canonical text is a formula: the sub-formula with its free variables renamed as the
         \* returned renaming says (bound variables up to alpha-equivalence)
         /\ IsOk(c)
         /\ fv \subseteq DOMAIN RenMap(s)
         /\ \A x, y \in fv : x # y => RenOf(s, x) # RenOf(s, y)              \* injective
         /\ DBmap(s.tree, <<>>, [x \in fv |-> RenOf(s, x)]) = DeBruijn(c)
         /\ s.canon_again = s.canon                                             \* idempotent
         /\ s.canon_alone = s.canon
  /\ \A i, j \in 1..n : i < j => ((S[i].canon = S[j].canon) <=> AlphaEqOpen(S[i].tree, S[j].tree))

(* ---- C09: duplicates ---- *)
JC09dups(e) ==
  /\ e.dups_outcome = "ok"
  /\ LET occ == OccAll(e.trees, 1) IN
     \A di \in 1..Len(e.dups) :
       LET d == e.dups[di]
           c == ParseChars(d.canon_chars, TRUE)
           D == [x \in {d.doms[i][1] : i \in 1..Len(d.doms)} |->
                   d.doms[CHOOSE i \in 1..Len(d.doms) : d.doms[i][1] = x][2]]
       IN /\ IsOk(c)
          /\ d.n >= 1
          /\ Cardinality({oi \in 1..Len(occ) : IsOccurrenceOf(occ[oi], c, D)}) >= d.n + 1

Judge(e, kind) ==
  CASE kind = "c07" -> B2S(JC07(e))
    [] kind = "c09canon" -> B2S(JC09canon(e))
    [] kind = "c09dups" -> B2S(JC09dups(e))

VARIABLE ei
Init == ei \in 1..Len(Doc.events)
Next == UNCHANGED ei
Verdict ==
  LET e == Doc.events[ei]
      v == [k \in 1..Len(e.kinds) |-> Judge(e, e.kinds[k])]
  IN  PrintT(<<"VERDICT", e.id, v>>)
=============================================================================
