-------------------------------- MODULE Cache --------------------------------
(***************************************************************************)
(* The sub-formula cache of the evaluator as a STATE MACHINE with one      *)
(* action per critical section of eval_node (src/evaluation/algorithm.rs), *)
(* abstracting from what is cached: keys are opaque.  (Evaluator.tla is    *)
(* the same code in state-passing style with the values; this module is    *)
(* the protocol alone, small enough to explore every schedule of visits.)  *)
(*                                                                         *)
(*   duplicates : key -> remaining fetches (EvalContext.duplicates), filled*)
(*                by the marking pass before evaluation; a wild-card key   *)
(*                is pre-loaded into the cache and counted once more       *)
(*                (extend_context_with_wild_cards)                         *)
(*   cache      : the keys that currently hold a value                     *)
(*   stack      : the evaluations of marked sub-formulae in progress that  *)
(*                WILL store their result (the save rule said yes), each   *)
(*                with the number of scopes that were open when it began   *)
(*                                                                         *)
(* eval_node on a node with key k:                                         *)
(*   k marked and cached     -> Hit(k): fetch, one fetch less; at zero the *)
(*                              entry and the counter go (never for a      *)
(*                              wild-card: it cannot be recomputed)        *)
(*   k marked and not cached -> Miss(k, save): evaluate the node (children *)
(*                              are visited in between); Save(k) at the    *)
(*                              end iff save - unless the node returns     *)
(*                              through a shortcut that does not store:    *)
(*                              Shortcut(k)                                *)
(*   k not marked            -> nothing (not an action of this module)     *)
(* `save` is decided by the SCOPE RULE: no enclosing quantifier with a      *)
(* restricted domain whose variable is not free in the sub-formula (a      *)
(* value computed on the restricted graph of such a quantifier is valid    *)
(* only there).  The open quantifier scopes are part of the state:         *)
(*   scopes : stack of [var, dom] (dom = "" for an unrestricted one),      *)
(*            pushed by Open when eval_node enters a quantifier and popped *)
(*            by Close when it leaves (EvalContext.free_var_domains)       *)
(* Marked keys have at most one variable; KeyDom(k) says what the key      *)
(* contains about it: "closed" (no free variable), "" (a free variable     *)
(* with an unrestricted domain) or the label of its domain.  The rule is   *)
(* then computable: see SaveRule.                                          *)
(***************************************************************************)
EXTENDS Naturals, Integers, Sequences, FiniteSets

CONSTANTS Keys,      \* all keys that may be visited
          Wild,      \* the keys of wild-card propositions (subset of Keys)
          KeyDom(_)  \* "closed" / "" / domain label of the key's free variable

VARIABLES duplicates, cache, stack, scopes,
          hits, saved,       \* history: fetches per key, keys ever stored by Save
          savedUnder         \* history: the restricted scopes that were open when a key was stored
cvars == <<duplicates, cache, stack, scopes, hits, saved, savedUnder>>

Marked == DOMAIN duplicates

(* the state the marking pass and the wild-card pre-loading leave: d0 = counters, c0 = pre-loaded keys *)
CacheInit(d0, c0) ==
  /\ duplicates = d0 /\ cache = c0 /\ stack = <<>> /\ scopes = <<>>
  /\ hits = [k \in Keys |-> 0] /\ saved = {} /\ savedUnder = [k \in {} |-> {}]

(* the labels of the restricted quantifier scopes that are open *)
Restricted == {scopes[j].dom : j \in {i \in 1..Len(scopes) : scopes[i].dom # ""}}
NRestricted == Cardinality({i \in 1..Len(scopes) : scopes[i].dom # ""})
(* eval_node: free_var_domains.iter().all(|(v, d)| d.is_none() || renaming.contains_key(v))  --  with at most  *)
(* one variable in a marked key: no restricted scope is open, or exactly one and it is the key's own variable *)
SaveRule(k) ==
  \A i \in 1..Len(scopes) :
    scopes[i].dom # "" => (scopes[i].dom = KeyDom(k) /\ \A j \in 1..Len(scopes) : scopes[j].dom # "" => j = i)
(* (the same rule with a count: used as a cross-check by MC_Cache) *)
SaveRuleCounted(k) == NRestricted = 0 \/ (NRestricted = 1 /\ KeyDom(k) \in Restricted)

Open(v, d) ==
  /\ \A j \in 1..Len(scopes) : scopes[j].var # v      \* variables are named by nesting depth: no re-binding
  /\ scopes' = Append(scopes, [var |-> v, dom |-> d])
  /\ UNCHANGED <<duplicates, cache, stack, hits, saved, savedUnder>>
Close(v) ==
  /\ scopes # <<>> /\ scopes[Len(scopes)].var = v
  /\ \A j \in 1..Len(stack) : stack[j].depth < Len(scopes)   \* evaluations begun inside the scope have ended
  /\ scopes' = SubSeq(scopes, 1, Len(scopes) - 1)
  /\ UNCHANGED <<duplicates, cache, stack, hits, saved, savedUnder>>

Drop(f, k) == [x \in (DOMAIN f) \ {k} |-> f[x]]

Hit(k) ==
  /\ k \in Marked /\ k \in cache
  /\ LET left == duplicates[k] - 1 IN
       IF left = 0 /\ k \notin Wild
       THEN duplicates' = Drop(duplicates, k) /\ cache' = cache \ {k}
       ELSE duplicates' = [duplicates EXCEPT ![k] = left] /\ cache' = cache
  /\ hits' = [hits EXCEPT ![k] = @ + 1]
  /\ UNCHANGED <<stack, scopes, saved, savedUnder>>

Miss(k, save) ==
  /\ k \in Marked /\ k \notin cache
  /\ \A j \in 1..Len(stack) : stack[j].key # k        \* a sub-formula does not contain itself
  /\ save = SaveRule(k)
  /\ stack' = IF save THEN Append(stack, [key |-> k, depth |-> Len(scopes)]) ELSE stack
  /\ UNCHANGED <<duplicates, cache, scopes, hits, saved, savedUnder>>

Save(k) ==
  /\ stack # <<>> /\ stack[Len(stack)].key = k
  /\ stack[Len(stack)].depth = Len(scopes)            \* every scope entered during the evaluation has been left
  /\ cache' = cache \cup {k} /\ saved' = saved \cup {k}
  /\ savedUnder' = [x \in (DOMAIN savedUnder) \cup {k} |-> IF x = k THEN Restricted ELSE savedUnder[x]]
  /\ stack' = SubSeq(stack, 1, Len(stack) - 1)
  /\ UNCHANGED <<duplicates, scopes, hits>>

(* Two shortcuts of eval_node return at once WITHOUT storing, even if the node is marked and the save rule   *)
(* said yes: the steady-state pattern `!{x}: AX {x}` (its value is the pre-computed steady-state set) and    *)
(* a quantifier whose restricted domain is empty.  (The attractor pattern does store.)  Found by            *)
(* Trace_Cache: the first version of this module had no such action and rejected those traces.              *)
Shortcut(k) ==
  /\ stack # <<>> /\ stack[Len(stack)].key = k
  /\ stack' = SubSeq(stack, 1, Len(stack) - 1)
  /\ UNCHANGED <<duplicates, cache, scopes, hits, saved, savedUnder>>

(* what was left after a fetch, and whether the entry went: the two fields the hook logs with a hit *)
LeftOf(k)   == IF k \in Marked THEN duplicates[k] ELSE 0
Evicted(k)  == k \notin cache

(* ---- properties of the design ---- *)
CacheWithinMarked == cache \subseteq Marked
(* a counter of an ordinary key is positive while it exists: it is dropped at zero *)
CountersPositive == \A k \in Marked \ Wild : duplicates[k] > 0
(* an ordinary key is fetched at most as often as the marking pass counted *)
FetchBound(d0) == \A k \in (DOMAIN d0) \ Wild : hits[k] <= d0[k]
(* wild-card sets are never lost *)
WildKept(c0) == \A k \in c0 \cap Wild : k \in cache
(* whatever is cached was pre-loaded or stored by a Save that the save rule allowed *)
CachedWasSaved(c0) == cache \subseteq (c0 \cup saved)
StackDistinct == \A a, b \in 1..Len(stack) : a # b => stack[a].key # stack[b].key
(* THE point of the save rule: a stored value was computed under no restricted scope other than that of the     *)
(* key's own variable - whose domain is part of the key - so it is valid wherever the key matches again         *)
StoredValuesPortable == \A k \in DOMAIN savedUnder : savedUnder[k] \subseteq {KeyDom(k)}
=============================================================================
