-------------------------------- MODULE Cache --------------------------------
(***************************************************************************)
(* The sub-formula cache of the evaluator as a STATE MACHINE with one      *)
(* action per critical section of eval_node (src/evaluation/algorithm.rs), *)
(* abstracting from what is cached: keys are opaque.  (Evaluator.tla is    *)
(* the same code in state-passing style with the values; this module is    *)
(* the protocol alone, small enough to explore every schedule of visits.)  *)
(*                                                                         *)
(*   duplicates : key -> remaining fetches (EvalContext.duplicates), filled*)
(*                by the marking pass before evaluation; a wild-card key   *)
(*                is pre-loaded into the cache and counted once more       *)
(*                (extend_context_with_wild_cards)                         *)
(*   cache      : the keys that currently hold a value                     *)
(*   stack      : the evaluations of marked sub-formulae in progress that  *)
(*                WILL store their result (the save rule said yes)         *)
(*                                                                         *)
(* eval_node on a node with key k:                                         *)
(*   k marked and cached     -> Hit(k): fetch, one fetch less; at zero the *)
(*                              entry and the counter go (never for a      *)
(*                              wild-card: it cannot be recomputed)        *)
(*   k marked and not cached -> Miss(k, save): evaluate the node (children *)
(*                              are visited in between); Save(k) at the    *)
(*                              end iff save - unless the node returns     *)
(*                              through a shortcut that does not store:    *)
(*                              Shortcut(k)                                *)
(*   k not marked            -> nothing (not an action of this module)     *)
(* `save` is decided by the scope rule (no enclosing restricted quantifier *)
(* whose variable is not free in the sub-formula); here it is an input.    *)
(***************************************************************************)
EXTENDS Naturals, Integers, Sequences, FiniteSets

CONSTANTS Keys,      \* all keys that may be visited
          Wild       \* the keys of wild-card propositions (subset of Keys)

VARIABLES duplicates, cache, stack,
          hits, saved        \* history: fetches per key, keys ever stored by Save
cvars == <<duplicates, cache, stack, hits, saved>>

Marked == DOMAIN duplicates

(* the state the marking pass and the wild-card pre-loading leave: d0 = counters, c0 = pre-loaded keys *)
CacheInit(d0, c0) ==
  /\ duplicates = d0 /\ cache = c0 /\ stack = <<>>
  /\ hits = [k \in Keys |-> 0] /\ saved = {}

Drop(f, k) == [x \in (DOMAIN f) \ {k} |-> f[x]]

Hit(k) ==
  /\ k \in Marked /\ k \in cache
  /\ LET left == duplicates[k] - 1 IN
       IF left = 0 /\ k \notin Wild
       THEN duplicates' = Drop(duplicates, k) /\ cache' = cache \ {k}
       ELSE duplicates' = [duplicates EXCEPT ![k] = left] /\ cache' = cache
  /\ hits' = [hits EXCEPT ![k] = @ + 1]
  /\ UNCHANGED <<stack, saved>>

Miss(k, save) ==
  /\ k \in Marked /\ k \notin cache
  /\ \A j \in 1..Len(stack) : stack[j] # k            \* a sub-formula does not contain itself
  /\ stack' = IF save THEN Append(stack, k) ELSE stack
  /\ UNCHANGED <<duplicates, cache, hits, saved>>

Save(k) ==
  /\ stack # <<>> /\ stack[Len(stack)] = k
  /\ cache' = cache \cup {k} /\ saved' = saved \cup {k}
  /\ stack' = SubSeq(stack, 1, Len(stack) - 1)
  /\ UNCHANGED <<duplicates, hits>>

(* Two shortcuts of eval_node return at once WITHOUT storing, even if the node is marked and the save rule   *)
(* said yes: the steady-state pattern `!{x}: AX {x}` (its value is the pre-computed steady-state set) and    *)
(* a quantifier whose restricted domain is empty.  (The attractor pattern does store.)  Found by            *)
(* Trace_Cache: the first version of this module had no such action and rejected those traces.              *)
Shortcut(k) ==
  /\ stack # <<>> /\ stack[Len(stack)] = k
  /\ stack' = SubSeq(stack, 1, Len(stack) - 1)
  /\ UNCHANGED <<duplicates, cache, hits, saved>>

(* what was left after a fetch, and whether the entry went: the two fields the hook logs with a hit *)
LeftOf(k)   == IF k \in Marked THEN duplicates[k] ELSE 0
Evicted(k)  == k \notin cache

(* ---- properties of the design ---- *)
CacheWithinMarked == cache \subseteq Marked
(* a counter of an ordinary key is positive while it exists: it is dropped at zero *)
CountersPositive == \A k \in Marked \ Wild : duplicates[k] > 0
(* an ordinary key is fetched at most as often as the marking pass counted *)
FetchBound(d0) == \A k \in (DOMAIN d0) \ Wild : hits[k] <= d0[k]
(* wild-card sets are never lost *)
WildKept(c0) == \A k \in c0 \cap Wild : k \in cache
(* whatever is cached was pre-loaded or stored by a Save that the save rule allowed *)
CachedWasSaved(c0) == cache \subseteq (c0 \cup saved)
StackDistinct == \A a, b \in 1..Len(stack) : a # b => stack[a] # stack[b]
=============================================================================
