SPECIFICATION Spec
INVARIANT Inv
PROPERTY Terminates
CHECK_DEADLOCK FALSE
