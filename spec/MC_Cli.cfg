SPECIFICATION Spec
INVARIANT Inv
PROPERTY Terminates
PROPERTY RefInit
PROPERTY RefStep
CHECK_DEADLOCK FALSE
