--------------------------------- MODULE Rel ---------------------------------
(***************************************************************************)
(* Coloured relations: the values the evaluator computes, and the          *)
(* set-level CONTRACT of every symbolic primitive the implementation uses  *)
(* -- including each primitive's imprecision (what is and what is not      *)
(* intersected with the unit set).                                         *)
(*                                                                         *)
(* A relation over (colour, valuation of the k state-variable copies,      *)
(* state) is a function from SLICES  <<colour, x_1, ..., x_k>>  to sets of *)
(* states, so that dependence on every auxiliary variable is explicit.     *)
(* (This representation is also the fastest one for TLC: every operation   *)
(* is point-wise over the slices with tiny sets inside.)                   *)
(*                                                                         *)
(* A graph G is a record                                                   *)
(*   St, Cs : states, ALL colours (valid or not)                           *)
(*   k      : number of variable copies (copy i encodes the variable whose *)
(*            canonical name has i letters: x, xx, xxx, ...)               *)
(*   slices : Cs x St^k                                                    *)
(*   pred   : [Cs -> [St -> SUBSET St]]  proper predecessors (the          *)
(*            transition relation without self-loops, backwards)           *)
(*   succ   : the same relation forwards                                   *)
(*   nv, vpred : (only for the saturation model) number of variables and   *)
(*            predecessors through one variable, [1..nv -> Cs -> St -> ..] *)
(*   unit   : the unit set, as a relation (a graph restricted by "x in d"  *)
(*            has a smaller one)                                           *)
(* Library calls are abstracted by their contracts: the saturation loop of *)
(* EU computes a least fixed point (whatever the variable order),          *)
(* FixedPoints::symbolic the steady states, ITGR + Xie-Beerel the          *)
(* attractor states inside the unit set.                                   *)
(***************************************************************************)
EXTENDS Naturals, Sequences, FiniteSets, TLC

Slices(Cs, St, k) == {<<c>> \o h : c \in Cs, h \in [1..k -> St]}
Col(sl)    == sl[1]
Cpy(sl, i) == sl[1 + i]

(* point-wise construction (forced, so that TLC stores an explicit function) *)
Mk(G, F(_)) == TLCEval([sl \in G.slices |-> F(sl)])
Empty(G)    == Mk(G, LAMBDA sl : {})
(* (operator arguments are evaluated lazily by TLC -- and again at every use inside a function   *)
(* constructor -- so every operation first forces its relation arguments: a == TLCEval(A))       *)
Cap(G, A, B)   == LET a == TLCEval(A) b == TLCEval(B) IN Mk(G, LAMBDA sl : a[sl] \cap b[sl])
Cup(G, A, B)   == LET a == TLCEval(A) b == TLCEval(B) IN Mk(G, LAMBDA sl : a[sl] \cup b[sl])
Minus(G, A, B) == LET a == TLCEval(A) b == TLCEval(B) IN Mk(G, LAMBDA sl : a[sl] \ b[sl])
IsEmpty(G, A)  == \A sl \in G.slices : A[sl] = {}
SubsetOf(G, A, B) == \A sl \in G.slices : A[sl] \subseteq B[sl]

(* a set of (colour, state) pairs, given per colour, as a relation (independent of the copies) *)
Lift(G, P) == Mk(G, LAMBDA sl : P[Col(sl)])
(* low_level_operations.rs *)
CompVarState(G, i)  == Mk(G, LAMBDA sl : G.unit[sl] \cap {Cpy(sl, i)})      \* create_comparator_var_state (with unit)
ProjectVar(G, R, i) == LET r == TLCEval(R) IN Mk(G, LAMBDA sl : UNION {r[[sl EXCEPT ![1 + i] = v]] : v \in G.St})   \* project_out_hctl_var
ProjectState(G, R)  == LET r == TLCEval(R) IN Mk(G, LAMBDA sl : IF r[sl] = {} THEN {} ELSE G.St)    \* project_out_bn_vars
(* create_comparator_two_vars is a plain bitwise equivalence (no unit set) *)
CompTwoVars(G, a, b) == Mk(G, LAMBDA sl : IF Cpy(sl, a) = Cpy(sl, b) THEN G.St ELSE {})
Substitute(G, R, a, b) ==        \* substitute_hctl_var: R /\ (x_a = x_b), then exists x_a
  IF a = b THEN R
  ELSE LET r == TLCEval(R) IN ProjectVar(G, Mk(G, LAMBDA sl : IF Cpy(sl, a) = Cpy(sl, b) THEN r[sl] ELSE {}), a)
DomainOf(G, D, i)   == ProjectState(G, Cap(G, D, CompVarState(G, i)))       \* compute_valid_domain_for_var
Restrict(G, VD)     == [G EXCEPT !.unit = Cap(G, G.unit, VD)]               \* restrict_stg_unit_bdd
(* graph library: pre-image, no unit set, no self-loops *)
Pre(G, R)  == LET r == TLCEval(R) IN Mk(G, LAMBDA sl : UNION {G.pred[Col(sl)][s] : s \in r[sl]})
(* hctl_operators_eval.rs *)
Neg(G, R)     == Minus(G, G.unit, R)
Imp(G, A, B)  == Cup(G, Neg(G, A), B)
Iff(G, A, B)  == LET a == TLCEval(A) b == TLCEval(B) IN Cup(G, Cap(G, a, b), Cap(G, Neg(G, a), Neg(G, b)))
Xor(G, A, B)  == Neg(G, Iff(G, A, B))
EX(G, R, st)  == LET r == TLCEval(R) IN Cup(G, Pre(G, r), Cap(G, r, st))
AX(G, R, st)  == Neg(G, EX(G, Neg(G, R), st))
RECURSIVE LfpEU(_, _, _)
LfpEU(G, A, Z) == LET z == TLCEval(Z) Z2 == TLCEval(Cup(G, z, Cap(G, A, Pre(G, z)))) IN IF Z2 = z THEN z ELSE LfpEU(G, A, Z2)
EU(G, A, B)   == LfpEU(G, TLCEval(A), B)                 \* eval_eu_saturated: self-loops are not needed
(* eval_eu_saturated AS WRITTEN: repeatedly take the LAST variable (in variable order) whose     *)
(* pre-image adds something, add it, start over; G.vpred[v][c][s] = predecessors of s through an *)
(* update of variable v.  MC_Saturation checks that it computes the same least fixed point.      *)
VarPre(G, v, R) == LET r == TLCEval(R) IN Mk(G, LAMBDA sl : UNION {G.vpred[v][Col(sl)][s] : s \in r[sl]})
RECURSIVE FirstUpdate(_, _, _, _)
FirstUpdate(G, A, Z, v) ==      \* [found, set] for the highest variable <= v with a non-empty update
  IF v = 0 THEN [found |-> FALSE, set |-> Z]
  ELSE LET u == Minus(G, Cap(G, A, VarPre(G, v, Z)), Z) IN
       IF ~IsEmpty(G, u) THEN [found |-> TRUE, set |-> Cup(G, Z, u)] ELSE FirstUpdate(G, A, Z, v - 1)
RECURSIVE SaturateEU(_, _, _)
SaturateEU(G, A, Z) ==
  LET z == TLCEval(Z) f == FirstUpdate(G, A, z, G.nv) IN IF f.found THEN SaturateEU(G, A, TLCEval(f.set)) ELSE z
(* eval_eu / eval_ef (the classical loops through EX; not used by the evaluator any more) *)
RECURSIVE LfpEUx(_, _, _, _)
LfpEUx(G, A, Z, st) == LET z == TLCEval(Z) Z2 == TLCEval(Cup(G, z, Cap(G, A, EX(G, z, st)))) IN IF Z2 = z THEN z ELSE LfpEUx(G, A, Z2, st)
EUx(G, A, B, st) == LfpEUx(G, TLCEval(A), B, st)
RECURSIVE LfpEFx(_, _, _)
LfpEFx(G, Z, st) == LET z == TLCEval(Z) Z2 == TLCEval(Cup(G, z, EX(G, z, st))) IN IF Z2 = z THEN z ELSE LfpEFx(G, Z2, st)
EFx(G, R, st) == LfpEFx(G, R, st)
EF(G, R)      == EU(G, G.unit, R)
AG(G, R)      == Neg(G, EF(G, Neg(G, R)))
RECURSIVE GfpEG(_, _, _)
GfpEG(G, Z, st) == LET z == TLCEval(Z) Z2 == TLCEval(Cap(G, z, EX(G, z, st))) IN IF Z2 = z THEN z ELSE GfpEG(G, Z2, st)
EG(G, R, st)  == GfpEG(G, R, st)
AF(G, R, st)  == Neg(G, EG(G, Neg(G, R), st))
RECURSIVE LfpAU(_, _, _, _)
LfpAU(G, A, Z, st) == LET z == TLCEval(Z) Z2 == TLCEval(Cup(G, z, Cap(G, A, AX(G, z, st)))) IN IF Z2 = z THEN z ELSE LfpAU(G, A, Z2, st)
(* eval_au AS WRITTEN: the loop `old := B; new := {}; while old # new ...` does not run at all for B = {},   *)
(* so A[A U {}] = {} even where AX {} is not empty.  AX {} = the dead ends outside st: empty in standard     *)
(* evaluation (st = all steady states, unit closed under transitions), so there this IS the least fixed     *)
(* point; with st = {} (the self-loop-free variant) or a unit set that is not closed it is not.             *)
(* (Found by Trace_Rel: the primitive-level replay on arbitrary arguments.)                                  *)
AU(G, A, B, st) == LET b == TLCEval(B) IN IF IsEmpty(G, b) THEN Empty(G) ELSE LfpAU(G, TLCEval(A), b, st)
EW(G, A, B, st) == LET nb == TLCEval(Neg(G, B)) IN Neg(G, AU(G, nb, Cap(G, Neg(G, A), nb), st))
AW(G, A, B)     == LET nb == TLCEval(Neg(G, B)) IN Neg(G, EU(G, nb, Cap(G, Neg(G, A), nb)))
(* hybrid operators *)
Bind(G, R, i)   == ProjectVar(G, Cap(G, CompVarState(G, i), R), i)
Exists(G, R, i) == ProjectVar(G, R, i)
Jump(G, R, i)   == ProjectState(G, Cap(G, CompVarState(G, i), R))

(* contracts of the two library algorithms behind the optimised patterns *)
RECURSIVE FwdC(_, _, _)
FwdC(G, c, Z) == LET Z2 == Z \cup UNION {G.succ[c][s] : s \in Z} IN IF Z2 = Z THEN Z ELSE FwdC(G, c, Z2)
AttractorStates(G, c) == {s \in G.St : \A t \in FwdC(G, c, {s}) : s \in FwdC(G, c, {t})}
Attractors(G) == LET att == TLCEval([c \in G.Cs |-> AttractorStates(G, c)]) IN Mk(G, LAMBDA sl : G.unit[sl] \cap att[Col(sl)])
SteadyOf(G)   == Mk(G, LAMBDA sl : {s \in G.unit[sl] : G.succ[Col(sl)][s] = {}})

(* explicit tuples <<colour, state, x_1, ..., x_k>> of a relation (for comparison with recorded sets) *)
FromTuples(G, T) == LET tt == TLCEval(T) IN Mk(G, LAMBDA sl : {s \in G.St : (<<Col(sl), s>> \o Tail(sl)) \in tt})
TuplesOf(G, R) == UNION {{<<Col(sl), s>> \o Tail(sl) : s \in R[sl]} : sl \in G.slices}
=============================================================================
