------------------------------ MODULE Trace_Cli ------------------------------
(***************************************************************************)
(* Mode C for the I/O shell.                                               *)
(*  C17: every recorded run of the hctl-model-checker binary (arguments,   *)
(*       input files, the lines of its standard output, its exit status,   *)
(*       the archive it wrote read back through the library) is validated  *)
(*       PATH-WISE against the state machine of Cli.tla: the machine runs, *)
(*       and the recorded output lines are consumed one by one against the *)
(*       output the machine produced.  Each run is an independent          *)
(*       behaviour (one initial state per run); a run is accepted when a   *)
(*       state is reached in which every line has been consumed.           *)
(*  (C16, archive round trips through the library alone, is judged by     *)
(*  Trace_Arch.tla.)                                                      *)
(***************************************************************************)
EXTENDS Cli, BoolNet, Json, IOUtils

Doc == JsonDeserialize(IOEnv.CASEFILE)
ToSet(q) == {q[j] : j \in 1..Len(q)}
B2S(b) == IF b THEN "T" ELSE "F"

(* ---- the run record of Cli.tla from a recorded run ---- *)
RunOf(e) ==
  [modelOk |-> e.model_ok, fileOk |-> e.file_ok, lines |-> e.lines, opt |-> e.opt,
   ext |-> e.ext, ctxOk |-> e.ctx_ok, ctxLabels |-> ToSet(e.ctx_labels), out |-> e.out,
   netVars |-> ToSet(e.net_vars), n |-> Len(e.net_vars),
   lib |-> [j \in 1..Len(e.lib) |-> ToSet(e.lib[j])]]
LineText(cs) == TextOf(cs, 1, Len(cs) + 1)

VARIABLES r,        \* which recorded run this behaviour validates
          l,        \* next recorded output line
          p,        \* next item of `printed` to be matched
          q,        \* progress inside that item
          rest      \* states of a listing not yet seen
vars == <<cvars, r, l, p, q, rest>>
E == Doc.events[r]
R == RunOf(E)

Init == r \in {k \in 1..Len(Doc.events) : "c17" \in ToSet(Doc.events[k].kinds)}
        /\ CInitWith(Doc.events[r].pre_out) /\ l = 1 /\ p = 1 /\ q = 0 /\ rest = {}

MachineDone == pc \in {"done", "failed"}
(* phase 1: let the specification run to completion (silent steps, bounded by the input) *)
Machine == ~MachineDone /\ CNext(R) /\ UNCHANGED <<r, l, p, q, rest>>

Ev == E.events[l]
HasEv == l <= Len(E.events)
Item == printed[p]
HasItem == p <= Len(printed)
Consume(p2, q2, rest2) == l' = l + 1 /\ p' = p2 /\ q' = q2 /\ rest' = rest2 /\ UNCHANGED <<cvars, r>>
(* phase 2: consume recorded lines against `printed` *)
Other ==        \* progress chatter, timing, separators: not modelled; a message consumes the Message item
  /\ MachineDone /\ HasEv /\ Ev.ev = "other"
  /\ IF HasItem /\ Item.what = "message" THEN Consume(p + 1, 0, {}) ELSE Consume(p, q, rest)
FormulaLine ==
  /\ MachineDone /\ HasEv /\ Ev.ev = "formula" /\ HasItem /\ Item.what = "summary" /\ q = 0
  /\ Ev.text = LineText(Item.text)
  /\ Consume(p, 1, {})
CountLine ==
  /\ MachineDone /\ HasEv /\ HasItem /\ Item.what = "summary"
  /\ \/ q = 1 /\ Ev.ev = "results" /\ Ev.n = Item.results /\ Consume(p, 2, {})
     \/ q = 2 /\ Ev.ev = "colors"  /\ Ev.n = Item.colours /\ Consume(p, 3, {})
     \/ q = 3 /\ Ev.ev = "states"  /\ Ev.n = Item.states
          /\ IF p + 1 <= Len(printed) /\ printed[p + 1].what = "listing"
             THEN Consume(p + 1, 0, printed[p + 1].states)
             ELSE Consume(p + 1, 0, {})
StateLine ==      \* exhaustive mode: each state of the projection exactly once, in any order
  /\ MachineDone /\ HasEv /\ Ev.ev = "state" /\ HasItem /\ Item.what = "listing"
  /\ Ev.state \in rest
  /\ IF rest = {Ev.state} THEN Consume(p + 1, 0, {}) ELSE Consume(p, 0, rest \ {Ev.state})
EmptyListing ==   \* a listing of no states prints no line
  /\ MachineDone /\ HasItem /\ Item.what = "listing" /\ rest = {}
  /\ p' = p + 1 /\ UNCHANGED <<cvars, r, l, q, rest>>
Next == Machine \/ Other \/ FormulaLine \/ CountLine \/ StateLine \/ EmptyListing

(* the archived model denotes the same network (printing may re-associate an expression) *)
SameNetwork(A, B) ==
  /\ A.vars = B.vars /\ A.regs = B.regs /\ A.params = B.params
  /\ \A v \in 1..NVars(A) : (A.fns[v].op = "implicit") = (B.fns[v].op = "implicit")
  /\ \A v \in 1..NVars(A) : A.fns[v].op = "implicit" => A.fns[v] = B.fns[v]
  /\ \A c \in Colours(A) : \A s \in States(A) : \A v \in 1..NVars(A) : Update(A, c, v, s) = Update(B, c, v, s)

(* the archive written with -o, read back through the library *)
ArchiveAgrees ==
  (R.out /\ pc = "done") =>
    /\ E.arch_ok
    /\ ToSet(E.arch.entries) = {x \o ".bdd" : x \in DOMAIN archive.sets} \cup {"model.aeon", "formulae.txt"}
    /\ \A x \in DOMAIN archive.sets : ToSet(E.arch.sets[x]) = archive.sets[x] /\ ~E.arch.aux[x]
    /\ E.arch.formulae = [j \in 1..Len(archive.formulae) |-> LineText(archive.formulae[j])]
    /\ SameNetwork(E.net_in, E.arch.net)
Accepted ==
  /\ MachineDone /\ l = Len(E.events) + 1 /\ p = Len(printed) + 1
  /\ E.exit = 0 /\ ~E.panicked
  /\ (pc = "failed" => E.said_something)
  /\ ((pc = "failed" /\ E.pre_out) => (archive = OldArchive /\ E.old_kept))    \* a failing run does not touch the old archive
  /\ ArchiveAgrees
  /\ E.k = (IF FailsAt(R) = "none" THEN GraphK(R) ELSE E.k)   \* the reference was computed with the same k

(* ---- verdicts ---- *)
VerdictC17 == Accepted => PrintT(<<"VERDICT", E.id, <<"T">>>>)
Progress   == PrintT(<<"REACHED", E.id, l, p>>)
=============================================================================
