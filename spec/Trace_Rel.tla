------------------------------ MODULE Trace_Rel ------------------------------
(***************************************************************************)
(* Mode C, PRIMITIVE level: every symbolic primitive of the implementation *)
(* (hctl_operators_eval.rs, low_level_operations.rs, reached through the   *)
(* cfg(hctl_verif) re-export) is called on ARBITRARY raw sets - including  *)
(* sets outside the unit set and sets that depend on the variable copies,  *)
(* which evaluation of formulae never produces - on graphs whose unit set  *)
(* is optionally restricted by a relation over the copies (as the domain   *)
(* quantifiers do), and the recorded result is compared with the           *)
(* set-level CONTRACT of the primitive in Rel.tla.                         *)
(*                                                                         *)
(* A disagreement is MODEL DRIFT (the contract Rel.tla assumes for that    *)
(* primitive is not what the code does), reported as a NOTE: the           *)
(* properties are about the entry points and are decided by Trace_Sem.     *)
(***************************************************************************)
EXTENDS Rel, BoolNet, Json, IOUtils

Doc  == JsonDeserialize(IOEnv.CASEFILE)
N0   == Doc.net
S0   == States(N0)
Valid0 == TLCEval(ValidColours(N0))
VarNames0 == {N0.vars[i] : i \in 1..NVars(N0)}
P0   == TLCEval([name \in VarNames0 |-> {s \in S0 : Bit(s, VarIdx(N0, name) - 1)}])
Succ0 == TLCEval([c \in Colours(N0) |-> TLCEval(SuccF(N0, c))])
Pred0 == TLCEval([c \in Colours(N0) |-> TLCEval([s \in S0 |-> {p \in S0 : s \in Succ0[c][p]}])])
ToSet(q) == {q[j] : j \in 1..Len(q)}
B2S(b) == IF b THEN "T" ELSE "F"
Has(r, f) == f \in DOMAIN r

BaseGraph(k) ==
  LET sls == Slices(Colours(N0), S0, k) IN
  [St |-> S0, Cs |-> Colours(N0), k |-> k, slices |-> sls, succ |-> Succ0, pred |-> Pred0,
   unit |-> TLCEval([sl \in sls |-> IF sl[1] \in Valid0 THEN S0 ELSE {}])]
GraphOf(case) ==
  LET B == TLCEval(BaseGraph(case.k)) IN
  IF Has(case, "unit") THEN Restrict(B, FromTuples(B, ToSet(case.unit))) ELSE B

Arg(G, op, f) == FromTuples(G, ToSet(op[f]))
StArg(G, op) == IF op.st_kind = "steady" THEN SteadyOf(G) ELSE Arg(G, op, "st")

Expected(G, op) ==
  CASE op.op = "neg"    -> Neg(G, Arg(G, op, "a"))
    [] op.op = "imp"    -> Imp(G, Arg(G, op, "a"), Arg(G, op, "b"))
    [] op.op = "iff"    -> Iff(G, Arg(G, op, "a"), Arg(G, op, "b"))
    [] op.op = "xor"    -> Xor(G, Arg(G, op, "a"), Arg(G, op, "b"))
    [] op.op = "prop"   -> Mk(G, LAMBDA sl : G.unit[sl] \cap P0[op.name])
    [] op.op = "var"    -> CompVarState(G, op.i)
    [] op.op = "comp2"  -> CompTwoVars(G, op.i, op.j)
    [] op.op = "bind"   -> Bind(G, Arg(G, op, "a"), op.i)
    [] op.op = "exists" -> Exists(G, Arg(G, op, "a"), op.i)
    [] op.op = "jump"   -> Jump(G, Arg(G, op, "a"), op.i)
    [] op.op = "ex"     -> EX(G, Arg(G, op, "a"), StArg(G, op))
    [] op.op = "ax"     -> AX(G, Arg(G, op, "a"), StArg(G, op))
    [] op.op = "eu_ex"  -> EUx(G, Arg(G, op, "a"), Arg(G, op, "b"), StArg(G, op))
    [] op.op = "ef_ex"  -> EFx(G, Arg(G, op, "a"), StArg(G, op))
    [] op.op = "eu"     -> EU(G, Arg(G, op, "a"), Arg(G, op, "b"))
    [] op.op = "ef"     -> EF(G, Arg(G, op, "a"))
    [] op.op = "eg"     -> EG(G, Arg(G, op, "a"), StArg(G, op))
    [] op.op = "af"     -> AF(G, Arg(G, op, "a"), StArg(G, op))
    [] op.op = "ag"     -> AG(G, Arg(G, op, "a"))
    [] op.op = "au"     -> AU(G, Arg(G, op, "a"), Arg(G, op, "b"), StArg(G, op))
    [] op.op = "ew"     -> EW(G, Arg(G, op, "a"), Arg(G, op, "b"), StArg(G, op))
    [] op.op = "aw"     -> AW(G, Arg(G, op, "a"), Arg(G, op, "b"))
    [] op.op = "project_var"   -> ProjectVar(G, Arg(G, op, "a"), op.i)
    [] op.op = "project_state" -> ProjectState(G, Arg(G, op, "a"))
    [] op.op = "substitute"    -> Substitute(G, Arg(G, op, "a"), op.i, op.j)
    [] op.op = "domain_of"     -> DomainOf(G, Arg(G, op, "a"), op.i)
    [] op.op = "restrict"      -> Restrict(G, Arg(G, op, "a")).unit
    [] op.op = "steady"        -> SteadyOf(G)

(* restrict_stg_unit_bdd has a PRECONDITION: the restricted unit set is not empty (it unwraps the library's  *)
(* "no update functions satisfy the constraints" error) - the evaluator tests emptiness before it calls it.  *)
JOp(G, op) ==
  LET e == TLCEval(Expected(G, op)) IN
  IF op.op = "restrict" /\ IsEmpty(G, e) THEN op.outcome = "panic"
  ELSE op.outcome = "ok" /\ TuplesOf(G, e) = ToSet(op.res)

VARIABLE ci
Init == ci \in 1..Len(Doc.cases)
Next == UNCHANGED ci
Verdict ==
  LET case == Doc.cases[ci]
      G == TLCEval(GraphOf(case))
      unitOk == TuplesOf(G, G.unit) = ToSet(case.unit_full)
      oks == [k \in 1..Len(case.ops) |-> JOp(G, case.ops[k])]
      bad == {k \in 1..Len(oks) : ~oks[k]}
      ok == unitOk /\ bad = {}
  IN  /\ PrintT(<<"VERDICT", case.id, <<B2S(ok)>>>>)
      /\ (ok \/ PrintT(<<"DRIFT", case.id, unitOk, {case.ops[k].op : k \in bad}>>))
=============================================================================
