-------------------------------- MODULE Laws --------------------------------
(***************************************************************************)
(* The catalogue of LAWS: pairs of formula schemas over wild-card          *)
(* arguments (%S%, %T%, %R%) that must denote the same set on every        *)
(* Kripke structure -- fixed-point characterisations, dualities,           *)
(* monotonicity, weak until, self-loops on steady states, README domain    *)
(* equivalences, pattern-defeating rewrites.                               *)
(*                                                                         *)
(* MC_Laws verifies every law with Hctl.Sat on ALL total Kripke structures *)
(* with up to three states and ALL argument sets, and writes the catalogue *)
(* as JSON; the harness only instantiates what it reads from that file     *)
(* (it contains no law of its own) on models too large for explicit        *)
(* semantics, and logs whether the implementation produced equal BDDs.     *)
(* The three ORACLE laws relate EF / AG / EU to graph-theoretic            *)
(* reachability (BoolNet.ReachBwd / TrapFwd / ReachBwdWithin); on large    *)
(* models the other side is computed by the graph library.                 *)
(***************************************************************************)
EXTENDS Hctl, BoolNet

S == [op |-> "wild", name |-> "S"]
T == [op |-> "wild", name |-> "T"]
R == [op |-> "wild", name |-> "R"]
Tr == [op |-> "true"]
Fa == [op |-> "false"]
Un(o, a)     == [op |-> o, a |-> a]
Bi(o, a, b)  == [op |-> o, a |-> a, b |-> b]
Hy(o, v, d, a) == [op |-> o, v |-> v, dom |-> d, a |-> a]
Var(v) == [op |-> "var", v |-> v]
Not(a) == Un("not", a)
And(a, b) == Bi("and", a, b)
Or(a, b)  == Bi("or", a, b)
SR == Or(S, R)          \* a superset of S
TR == Or(T, R)
SteadyF == Hy("bind", "x", "", Un("AX", Var("x")))
(* monotonicity  f(small) <= f(big)  as the equation  f(small) & ~f(big) = false *)
Mono(small, big) == And(small, Not(big))
L(id, lhs, rhs) == [id |-> id, lhs |-> lhs, rhs |-> rhs]

Catalogue == <<
  \* fixed-point characterisations
  L("fp_EF", Un("EF", S), Or(S, Un("EX", Un("EF", S)))),
  L("fp_AF", Un("AF", S), Or(S, Un("AX", Un("AF", S)))),
  L("fp_EG", Un("EG", S), And(S, Un("EX", Un("EG", S)))),
  L("fp_AG", Un("AG", S), And(S, Un("AX", Un("AG", S)))),
  L("fp_EU", Bi("EU", S, T), Or(T, And(S, Un("EX", Bi("EU", S, T))))),
  L("fp_AU", Bi("AU", S, T), Or(T, And(S, Un("AX", Bi("AU", S, T))))),
  L("fp_EW", Bi("EW", S, T), Or(T, And(S, Un("EX", Bi("EW", S, T))))),
  L("fp_AW", Bi("AW", S, T), Or(T, And(S, Un("AX", Bi("AW", S, T))))),
  \* dualities between A- and E-operators
  L("dual_AX", Un("AX", S), Not(Un("EX", Not(S)))),
  L("dual_AF", Un("AF", S), Not(Un("EG", Not(S)))),
  L("dual_AG", Un("AG", S), Not(Un("EF", Not(S)))),
  L("dual_AU", Bi("AU", S, T), And(Not(Bi("EU", Not(T), And(Not(S), Not(T)))), Not(Un("EG", Not(T))))),
  L("dual_AW", Bi("AW", S, T), Not(Bi("EU", Not(T), And(Not(S), Not(T))))),
  L("dual_EW", Bi("EW", S, T), Not(Bi("AU", Not(T), And(Not(S), Not(T))))),
  L("def_EW", Bi("EW", S, T), Or(Bi("EU", S, T), Un("EG", S))),
  \* (A[S W T] = A[S U T] | AG S is NOT a law on branching structures: TLC refutes it with 2 states)
  L("EF_as_EU", Un("EF", S), Bi("EU", Tr, S)),
  L("AF_as_AU", Un("AF", S), Bi("AU", Tr, S)),
  L("until_implies", And(T, Not(Bi("AW", S, T))), Fa),
  \* monotonicity in every argument
  L("mono_EX", Mono(Un("EX", S), Un("EX", SR)), Fa),
  L("mono_AX", Mono(Un("AX", S), Un("AX", SR)), Fa),
  L("mono_EF", Mono(Un("EF", S), Un("EF", SR)), Fa),
  L("mono_AF", Mono(Un("AF", S), Un("AF", SR)), Fa),
  L("mono_EG", Mono(Un("EG", S), Un("EG", SR)), Fa),
  L("mono_AG", Mono(Un("AG", S), Un("AG", SR)), Fa),
  L("mono_EU1", Mono(Bi("EU", S, T), Bi("EU", SR, T)), Fa),
  L("mono_EU2", Mono(Bi("EU", S, T), Bi("EU", S, TR)), Fa),
  L("mono_AU1", Mono(Bi("AU", S, T), Bi("AU", SR, T)), Fa),
  L("mono_AU2", Mono(Bi("AU", S, T), Bi("AU", S, TR)), Fa),
  L("mono_EW1", Mono(Bi("EW", S, T), Bi("EW", SR, T)), Fa),
  L("mono_AW2", Mono(Bi("AW", S, T), Bi("AW", S, TR)), Fa),
  L("mono_EW2", Mono(Bi("EW", S, T), Bi("EW", S, TR)), Fa),
  L("mono_AW1", Mono(Bi("AW", S, T), Bi("AW", SR, T)), Fa),
  \* distribution, idempotence, absorption, degenerate arguments
  L("dist_EX_or",  Un("EX", Or(S, T)),  Or(Un("EX", S), Un("EX", T))),
  L("dist_AX_and", Un("AX", And(S, T)), And(Un("AX", S), Un("AX", T))),
  L("dist_EF_or",  Un("EF", Or(S, T)),  Or(Un("EF", S), Un("EF", T))),
  L("dist_AG_and", Un("AG", And(S, T)), And(Un("AG", S), Un("AG", T))),
  L("idem_EF", Un("EF", Un("EF", S)), Un("EF", S)),
  L("idem_AG", Un("AG", Un("AG", S)), Un("AG", S)),
  L("idem_EG", Un("EG", Un("EG", S)), Un("EG", S)),
  L("idem_AF", Un("AF", Un("AF", S)), Un("AF", S)),
  L("absorb_EU", Bi("EU", S, Bi("EU", S, T)), Bi("EU", S, T)),
  L("absorb_AU", Bi("AU", S, Bi("AU", S, T)), Bi("AU", S, T)),
  L("EU_to_false", Bi("EU", S, Fa), Fa),
  L("AU_to_false", Bi("AU", S, Fa), Fa),
  L("EU_from_false", Bi("EU", Fa, T), T),
  L("AU_from_false", Bi("AU", Fa, T), T),
  L("EX_true", Un("EX", Tr), Tr),          \* total structures: steady states count as self-loops
  L("AX_false", Un("AX", Fa), Fa),
  L("EW_to_true", Bi("EW", S, Tr), Tr),
  L("AW_same", Bi("AW", S, S), S),
  L("AG_as_AW", Un("AG", S), Bi("AW", S, Fa)),
  L("EG_as_EW", Un("EG", S), Bi("EW", S, Fa)),
  L("AF_implies_EF", Mono(Un("AF", S), Un("EF", S)), Fa),
  L("AG_implies_EG", Mono(Un("AG", S), Un("EG", S)), Fa),
  L("AU_implies_EU", Mono(Bi("AU", S, T), Bi("EU", S, T)), Fa),
  L("U_implies_W", Mono(Bi("EU", S, T), Bi("EW", S, T)), Fa),
  \* EX / AX treat steady states as self-loops
  L("steady_EX", And(Un("EX", S), SteadyF), And(S, SteadyF)),
  L("steady_AX", And(Un("AX", S), SteadyF), And(S, SteadyF)),
  \* README: domains
  L("dom_bind", Hy("bind", "x", "S", Un("EF", And(Var("x"), T))), Hy("bind", "x", "", And(S, Un("EF", And(Var("x"), T))))),
  L("dom_exists", Hy("exists", "x", "S", Hy("jump", "x", "", Un("AX", T))),
                  Hy("exists", "x", "", Hy("jump", "x", "", And(S, Un("AX", T))))),
  L("dom_forall", Hy("forall", "x", "S", Hy("jump", "x", "", Un("EF", T))),
                  Hy("forall", "x", "", Hy("jump", "x", "", Bi("imp", S, Un("EF", T))))),
  \* hybrid operators: bind / jump / quantifiers against their definitions
  L("bind_jump", Hy("bind", "x", "", Hy("jump", "x", "", S)), S),
  L("exists_var", Hy("exists", "x", "", And(Var("x"), S)), S),
  L("forall_imp", Hy("forall", "x", "", Bi("imp", Var("x"), S)), S),
  L("bind_as_exists", Hy("bind", "x", "", Un("EF", And(Var("x"), T))),
                      Hy("exists", "x", "", And(Var("x"), Un("EF", And(Var("x"), T))))),
  L("dual_forall", Hy("forall", "x", "", Hy("jump", "x", "", Un("AX", T))),
                   Not(Hy("exists", "x", "", Not(Hy("jump", "x", "", Un("AX", T)))))),
  L("dom_bind_leaf", Hy("bind", "x", "S", T), And(S, T)),
  L("dom_exists_var", Hy("exists", "x", "S", Var("x")), S),
  L("dom_exists_and", Hy("exists", "x", "S", And(Var("x"), T)), And(S, T)),
  L("dom_forall_imp", Hy("forall", "x", "S", Bi("imp", Var("x"), T)), Or(Not(S), T)),
  \* two variables: quantifiers commute, unused quantifiers vanish, a binder under a quantifier of the same state
  L("comm_exists", Hy("exists", "x", "", Hy("exists", "y", "", And(Hy("jump", "x", "", Un("EX", Var("y"))), Hy("jump", "y", "", S)))),
                   Hy("exists", "y", "", Hy("exists", "x", "", And(Hy("jump", "x", "", Un("EX", Var("y"))), Hy("jump", "y", "", S))))),
  L("comm_forall", Hy("forall", "x", "", Hy("forall", "y", "", Or(Hy("jump", "x", "", Un("AX", Var("y"))), Hy("jump", "y", "", S)))),
                   Hy("forall", "y", "", Hy("forall", "x", "", Or(Hy("jump", "x", "", Un("AX", Var("y"))), Hy("jump", "y", "", S))))),
  L("exists_bind", Hy("exists", "x", "", Hy("bind", "y", "", And(Var("x"), Un("EX", Var("y"))))),
                   Hy("bind", "y", "", Un("EX", Var("y")))),
  L("unused_exists", Hy("exists", "x", "", Hy("exists", "y", "", Hy("jump", "y", "", Un("EF", T)))),
                     Hy("exists", "y", "", Hy("jump", "y", "", Un("EF", T)))),
  L("dom_comm_exists", Hy("exists", "x", "S", Hy("exists", "y", "T", Hy("jump", "x", "", Un("EX", Var("y"))))),
                       Hy("exists", "y", "T", Hy("exists", "x", "S", Hy("jump", "x", "", Un("EX", Var("y")))))),
  \* the optimised patterns against logically identical formulae
  L("pat_attractor", Hy("bind", "x", "", Un("AG", Un("EF", Var("x")))),
                     Hy("bind", "x", "", Un("AG", Un("EF", And(Var("x"), Var("x")))))),
  L("pat_steady", SteadyF, Hy("bind", "x", "", Un("AX", And(Var("x"), Var("x"))))),
  L("pat_attractor_in", And(S, Hy("bind", "x", "", Un("AG", Un("EF", Var("x"))))),
                        Hy("bind", "x", "S", Un("AG", Un("EF", And(Var("x"), Var("x"))))))
>>

(* oracle laws: lhs evaluated by the model checker, rhs by graph reachability *)
Oracles == <<
  [id |-> "reach_EF", lhs |-> Un("EF", S), oracle |-> "reach_backward", args |-> <<"S">>],
  [id |-> "trap_AG",  lhs |-> Un("AG", S), oracle |-> "trap_forward", args |-> <<"S">>],
  [id |-> "reach_EU", lhs |-> Bi("EU", S, T), oracle |-> "reach_backward_within", args |-> <<"S", "T">>]
>>
OracleValue(o, K, St, D) ==
  CASE o.oracle = "reach_backward" -> ReachBwd(K, St, D["S"])
    [] o.oracle = "trap_forward"   -> TrapFwd(K, D["S"])
    [] o.oracle = "reach_backward_within" -> ReachBwdWithin(K, St, D["S"] \cup D["T"], D["T"])

NoProps == [x \in {} |-> {}]
Holds(law, K, St, D) == Sat(K, St, NoProps, D, law.lhs, <<>>) = Sat(K, St, NoProps, D, law.rhs, <<>>)
OracleHolds(o, K, St, D) == Sat(K, St, NoProps, D, o.lhs, <<>>) = OracleValue(o, K, St, D)
(* ---- SUBSTITUTION laws (C10 beyond explicit semantics): a closed sub-formula may be replaced by a wild-card ---- *)
(* ---- that holds its pre-computed result.  ctx has the hole %S%; sub is closed and wild-card-free, so the    ---- *)
(* ---- harness can compute it with the plain API; the inlined right-hand side is COMPUTED here (Inline) and   ---- *)
(* ---- exported, the harness builds nothing.  Binders of ctx use y, those of sub use x (no capture).          ---- *)
AttrF == Hy("bind", "x", "", Un("AG", Un("EF", Var("x"))))
RECURSIVE Inline(_, _)
Inline(f, g) ==
  IF f.op = "wild" THEN (IF f.name = "S" THEN g ELSE f)
  ELSE IF "b" \in DOMAIN f THEN [f EXCEPT !.a = Inline(f.a, g), !.b = Inline(f.b, g)]
  ELSE IF "a" \in DOMAIN f THEN [f EXCEPT !.a = Inline(f.a, g)]
  ELSE f
Sb(id, ctx, sub) == [id |-> id, lhs |-> ctx, sub |-> sub, rhs |-> Inline(ctx, sub)]
Sb2(id, ctx, sub, rhs) == [id |-> id, lhs |-> ctx, sub |-> sub, rhs |-> rhs]
Substitutions == <<
  Sb("subst_EF_steady", Un("EF", S), SteadyF),
  Sb("subst_AGEF_attr", Un("AG", Un("EF", S)), AttrF),
  Sb("subst_AX_steady", And(T, Un("AX", Or(S, R))), SteadyF),
  Sb("subst_EU_attr", Bi("EU", Not(S), And(S, T)), AttrF),
  Sb("subst_twice_attr", And(Un("EX", S), Not(Un("AX", S))), AttrF),                 \* two occurrences: a cached duplicate
  Sb("subst_neg_steady", Un("AF", Not(S)), SteadyF),
  Sb("subst_under_exists", Hy("exists", "y", "", And(Hy("jump", "y", "", S), Un("EF", Var("y")))), SteadyF),
  Sb("subst_under_bind", Hy("bind", "y", "", Un("EX", And(Not(Var("y")), S))), AttrF),
  \* the hole as a DOMAIN (the main use of domains: quantify over pre-computed attractors / steady states); a domain
  \* cannot be inlined textually, the right-hand side is the README equivalence with the sub-formula in place
  Sb2("subst_dom_exists_attr", Hy("exists", "y", "S", Hy("jump", "y", "", Un("AX", T))), AttrF,
                               Hy("exists", "y", "", Hy("jump", "y", "", And(AttrF, Un("AX", T))))),
  Sb2("subst_dom_bind_steady", Hy("bind", "y", "S", Un("EF", And(Var("y"), T))), SteadyF,
                               Hy("bind", "y", "", And(SteadyF, Un("EF", And(Var("y"), T))))),
  Sb2("subst_dom_forall_attr", Hy("forall", "y", "S", Hy("jump", "y", "", Un("EF", T))), AttrF,
                               Hy("forall", "y", "", Hy("jump", "y", "", Bi("imp", AttrF, Un("EF", T)))))
>>
SubstHolds(sb, K, St, D) ==
  LET D2 == [D EXCEPT !["S"] = Sat(K, St, NoProps, D, sb.sub, <<>>)]
  IN  Sat(K, St, NoProps, D2, sb.lhs, <<>>) = Sat(K, St, NoProps, D, sb.rhs, <<>>)
=============================================================================
