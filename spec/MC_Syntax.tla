------------------------------ MODULE MC_Syntax ------------------------------
(***************************************************************************)
(* Mode A for the parser: the implementation's parsing ALGORITHM           *)
(* (Syntax.ImplParse: nine levels, split at the first operator of a level, *)
(* two adjacency checks) against the documented GRAMMAR (Syntax.Parse) on  *)
(* EVERY nested token sequence up to a length bound over a representative  *)
(* alphabet: two atoms, a variable, a constant, two unary operators, one   *)
(* Boolean operator per precedence level plus a second one of the lowest   *)
(* level (associativity), two temporal binary operators, three hybrid      *)
(* prefixes (one with a domain), and seven parenthesised groups including  *)
(* the empty one and ill-formed ones.                                      *)
(* Also: a tree rendered back to tokens parses to itself (no token lost).  *)
(***************************************************************************)
EXTENDS Syntax, IOUtils

p == TAtom("prop", "p")
AlphaSeq == <<p, TAtom("prop", "q"), TAtom("var", "x"), TAtom("prop", "true"),
         TUn("not"), TUn("EX"),
         TBin("and"), TBin("xor"), TBin("or"), TBin("imp"), TBin("iff"), TBin("EU"), TBin("AW"),
         THyb("bind", "x", ""), THyb("jump", "x", ""), THyb("exists", "y", "d"),
         TGrp(<<>>), TGrp(<<p>>), TGrp(<<p, TBin("and"), p>>), TGrp(<<TUn("not"), p>>),
         TGrp(<<THyb("bind", "x", ""), p>>), TGrp(<<p, p>>), TGrp(<<TGrp(<<p>>), TBin("EU"), p>>)>>
Alphabet == {AlphaSeq[i] : i \in 1..Len(AlphaSeq)}
EnvNat(name, default) == IF name \in DOMAIN IOEnv THEN (CHOOSE x \in 0..64 : ToString(x) = IOEnv[name]) ELSE default
MaxLen == EnvNat("SYN_L", 3)
Parts  == EnvNat("PARTS", 1)
Part   == EnvNat("PART", 0)

(* tree -> fully parenthesised token sequence *)
RECURSIVE ToTokens(_)
ToTokens(t) ==
  CASE t.op = "true"  -> <<TAtom("prop", "true")>>
    [] t.op = "false" -> <<TAtom("prop", "false")>>
    [] t.op = "prop"  -> <<TAtom("prop", t.name)>>
    [] t.op = "var"   -> <<TAtom("var", t.v)>>
    [] t.op = "wild"  -> <<TAtom("wild", t.name)>>
    [] IsUnary(t)  -> <<TGrp(<<TUn(t.op)>> \o ToTokens(t.a))>>
    [] IsBinary(t) -> <<TGrp(ToTokens(t.a) \o <<TBin(t.op)>> \o ToTokens(t.b))>>
    [] IsHybrid(t) -> <<TGrp(<<THyb(t.op, t.v, t.dom)>> \o ToTokens(t.a))>>

VARIABLE ts
Init == ts \in UNION {{s \in [1..n -> Alphabet] : n = 0 \/ (CHOOSE i \in 1..Len(AlphaSeq) : AlphaSeq[i] = s[1]) % Parts = Part}
                      : n \in 0..MaxLen}
Next == UNCHANGED ts
Agree ==
  LET a == ImplParse(ts) b == Parse(ts) IN
    /\ a = b
    /\ IsOk(b) => (Parse(ToTokens(b)) = b /\ ImplParse(ToTokens(b)) = b /\ Height(b) >= 0)
=============================================================================
