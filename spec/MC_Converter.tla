---------------------------- MODULE MC_Converter ----------------------------
(* Mode A: the Shannon-expansion algorithm reaches exactly all functions, arity 0..MaxArity   *)
(* (3 by default; CONV_N=4 in the thorough tier: all 65 536 functions of four arguments, each *)
(* reached by exactly one valuation of the 16 generated constants; ~25 s).                    *)
EXTENDS Converter, IOUtils
MaxArity == IF "CONV_N" \in DOMAIN IOEnv THEN (CHOOSE k \in 0..4 : ToString(k) = IOEnv.CONV_N) ELSE 3
VARIABLE n
Init == n \in 0..MaxArity
Next == UNCHANGED n
Complete == ExplodeComplete(n)
=============================================================================
