---------------------------- MODULE MC_Converter ----------------------------
(* Mode A: the Shannon-expansion algorithm reaches exactly all functions, arity 0..3. *)
EXTENDS Converter
VARIABLE n
Init == n \in 0..3
Next == UNCHANGED n
Complete == ExplodeComplete(n)
=============================================================================
