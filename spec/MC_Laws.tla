------------------------------- MODULE MC_Laws -------------------------------
(* Mode A: every law on every total Kripke structure with 1..3 states and every choice of the *)
(* argument sets S, T, R; on success the catalogue is written as JSON for the harness.        *)
EXTENDS Laws, Json, IOUtils, TLC
MaxN == IF "LAWS_N" \in DOMAIN IOEnv THEN (CHOOSE n \in 1..4 : ToString(n) = IOEnv.LAWS_N) ELSE 3
EnvNat(name, default) == IF name \in DOMAIN IOEnv THEN (CHOOSE x \in 0..64 : ToString(x) = IOEnv[name]) ELSE default
Parts == EnvNat("LAWS_PARTS", 1)
Part  == EnvNat("LAWS_PART", 0)
Structures(n) == {K \in [0..(n-1) -> SUBSET (0..(n-1))] : \A s \in 0..(n-1) : K[s] # {}}
VARIABLES n, K, li
Init == /\ n \in 1..MaxN
        /\ K \in Structures(n)
        /\ li \in {x \in 1..(Len(Catalogue) + Len(Oracles) + Len(Substitutions)) : x % Parts = Part}
Next == UNCHANGED <<n, K, li>>
St == 0..(n-1)
Args == [{"S", "T", "R"} -> SUBSET St]
LawHolds ==
  IF li <= Len(Catalogue)
  THEN \A D \in Args : Holds(Catalogue[li], K, St, D)
  ELSE IF li <= Len(Catalogue) + Len(Oracles)
  THEN \A D \in Args : OracleHolds(Oracles[li - Len(Catalogue)], K, St, D)
  ELSE \A D \in Args : SubstHolds(Substitutions[li - Len(Catalogue) - Len(Oracles)], K, St, D)
Export == JsonSerialize(IOEnv.LAWS_OUT, [laws |-> Catalogue, oracles |-> Oracles, substs |-> Substitutions])
ASSUME Export
=============================================================================
