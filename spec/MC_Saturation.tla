---------------------------- MODULE MC_Saturation ----------------------------
(***************************************************************************)
(* Mode A for the saturation loop of eval_eu_saturated: on a small network *)
(* (NETFILE) and for EVERY pair of argument sets over (colour, state), the *)
(* loop as written in the code (Rel.SaturateEU: highest variable first,    *)
(* restart after every successful update) computes the least fixed point   *)
(* Rel.EU that the rest of the specification uses as its contract, and     *)
(* that fixed point is graph-theoretic constrained backward reachability.  *)
(***************************************************************************)
EXTENDS Rel, BoolNet, Json, IOUtils
Doc  == JsonDeserialize(IOEnv.NETFILE)
N0   == Doc.net
S0   == States(N0)
Cs0  == Colours(N0)
Sl0  == TLCEval(Slices(Cs0, S0, 0))
StepVia(c, v, p) == IF Update(N0, c, v, p) # Bit(p, v - 1) THEN {SetBit(p, v - 1, Update(N0, c, v, p))} ELSE {}
G0 == TLCEval([St |-> S0, Cs |-> Cs0, k |-> 0, slices |-> Sl0, nv |-> NVars(N0),
               succ |-> TLCEval([c \in Cs0 |-> TLCEval(SuccF(N0, c))]),
               pred |-> TLCEval([c \in Cs0 |-> TLCEval([s \in S0 |-> {p \in S0 : s \in Succ(N0, c, p)}])]),
               vpred |-> TLCEval([v \in 1..NVars(N0) |-> [c \in Cs0 |-> [s \in S0 |-> {p \in S0 : s \in StepVia(c, v, p)}]]]),
               unit |-> TLCEval([sl \in Sl0 |-> S0])])
VARIABLES A, B
Init == A \in [Sl0 -> SUBSET S0] /\ B \in [Sl0 -> SUBSET S0]
Next == UNCHANGED <<A, B>>
Same ==
  LET code == SaturateEU(G0, A, B) lfp == EU(G0, A, B) IN
    /\ code = lfp
    /\ \A sl \in Sl0 : lfp[sl] = ReachBwdWithin(SuccF(N0, sl[1]), S0, A[sl] \cup B[sl], B[sl])
=============================================================================
