SPECIFICATION Spec
CONSTANTS
  Keys = {"k1", "k2", "k3", "w"}
  Wild = {"w"}
INVARIANT Inv
CONSTRAINT Bound
CHECK_DEADLOCK FALSE
