SPECIFICATION Spec
CONSTANTS
  Keys = {"k1", "k2", "k3", "w"}
  Wild = {"w"}
  KeyDom <- MCKeyDom
INVARIANT Inv
CONSTRAINT Bound
CHECK_DEADLOCK FALSE
