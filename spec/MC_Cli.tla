-------------------------------- MODULE MC_Cli --------------------------------
(***************************************************************************)
(* Mode A for the tool's state machine (Cli.tla): TLC explores every run   *)
(* over a small space of inputs -- formula files of up to two lines drawn  *)
(* from valid formulae, formulae with wild-cards, invalid text, comments,  *)
(* blank and indented lines; every print option; with and without context  *)
(* archive (readable or not, with or without the label); with and without  *)
(* output archive (on a fresh path or over an older archive); unreadable   *)
(* model / formula file -- and checks that                                 *)
(* formulae are reported in file order, that a failing run prints one      *)
(* message and nothing else, and that a finished run reported and archived *)
(* every formula.                                                          *)
(***************************************************************************)
EXTENDS Cli
Ch(c, k) == [c |-> c, k |-> k]
sp == Ch(" ", "s")
a  == Ch("a", "n")
LineSet == { <<a>>, <<sp, a, sp>>, <<Ch("#", "o"), a>>, <<>>, <<sp, sp>>, <<a, Ch("&", "o")>>,
             <<Ch("%", "o"), Ch("p", "n"), Ch("%", "o")>>, <<Ch("b", "n")>>, <<sp, Ch("#", "o")>> }
Files == {<<>>} \cup {<<x>> : x \in LineSet} \cup {<<x, y>> : x, y \in LineSet}
Runs == [modelOk : BOOLEAN, fileOk : BOOLEAN, lines : Files,
         opt : {"no-print", "summary", "with-progress", "exhaustive"},
         ext : BOOLEAN, ctxOk : BOOLEAN, ctxLabels : {{}, {"p"}}, out : BOOLEAN]
Full(r) == [modelOk |-> r.modelOk, fileOk |-> r.fileOk, lines |-> r.lines, opt |-> r.opt, ext |-> r.ext,
            ctxOk |-> r.ctxOk, ctxLabels |-> r.ctxLabels, out |-> r.out,
            netVars |-> {"a"}, n |-> 1, lib |-> [j \in 1..2 |-> {j - 1}]]
VARIABLES run,
          nEffV, failsV     \* number of effective formulae / does the run fail: functions of `run`, computed once
mvars == <<cvars, run, nEffV, failsV>>
InitFrom(RS) ==
  /\ run \in RS /\ \E oldThere \in BOOLEAN : CInitWith(oldThere)
  /\ nEffV = Len(Effective(Full(run))) /\ failsV = (FailsAt(Full(run)) # "none")
Init == InitFrom(Runs)
Next == CNext(Full(run)) /\ UNCHANGED <<run, nEffV, failsV>>
Spec == Init /\ [][Next]_mvars /\ WF_cvars(Next)

(* refinement: every behaviour of Cli.tla over this input space is a behaviour of the control skeleton        *)
(* CliMachine.tla (whose safety properties are proved for every number of formulae in CliMachineProofs.tla)   *)
AbsPrinted == [j \in 1..Len(printed) |-> [what |-> printed[j].what, idx |-> IF printed[j].what = "message" THEN 0 ELSE printed[j].idx]]
AbsArchive == [written |-> archive.written, old |-> ("old" \in DOMAIN archive),
               n |-> IF archive.written THEN Cardinality(DOMAIN archive.sets) ELSE 0]
Abs == INSTANCE CliMachine WITH printed <- AbsPrinted, archive <- AbsArchive,
         nEff <- nEffV, fails <- failsV, opt <- run.opt, out <- run.out
RefInit == Abs!Init
RefStep == [][Abs!Next \/ UNCHANGED Abs!vars]_mvars
Inv == InOrder /\ FailQuiet /\ FailKeepsOld /\ Replaced /\ Complete(Full(run))
Terminates == <>(pc \in {"done", "failed"})
=============================================================================
