-------------------------------- MODULE MC_Cli --------------------------------
(***************************************************************************)
(* Mode A for the tool's state machine (Cli.tla): TLC explores every run   *)
(* over a small space of inputs -- formula files of up to two lines drawn  *)
(* from valid formulae, formulae with wild-cards, invalid text, comments,  *)
(* blank and indented lines; every print option; with and without context  *)
(* archive (readable or not, with or without the label); with and without  *)
(* output archive (on a fresh path or over an older archive); unreadable   *)
(* model / formula file -- and checks that                                 *)
(* formulae are reported in file order, that a failing run prints one      *)
(* message and nothing else, and that a finished run reported and archived *)
(* every formula.                                                          *)
(***************************************************************************)
EXTENDS Cli
Ch(c, k) == [c |-> c, k |-> k]
sp == Ch(" ", "s")
a  == Ch("a", "n")
LineSet == { <<a>>, <<sp, a, sp>>, <<Ch("#", "o"), a>>, <<>>, <<sp, sp>>, <<a, Ch("&", "o")>>,
             <<Ch("%", "o"), Ch("p", "n"), Ch("%", "o")>>, <<Ch("b", "n")>>, <<sp, Ch("#", "o")>> }
Files == {<<>>} \cup {<<x>> : x \in LineSet} \cup {<<x, y>> : x, y \in LineSet}
Runs == [modelOk : BOOLEAN, fileOk : BOOLEAN, lines : Files,
         opt : {"no-print", "summary", "with-progress", "exhaustive"},
         ext : BOOLEAN, ctxOk : BOOLEAN, ctxLabels : {{}, {"p"}}, out : BOOLEAN]
Full(r) == [modelOk |-> r.modelOk, fileOk |-> r.fileOk, lines |-> r.lines, opt |-> r.opt, ext |-> r.ext,
            ctxOk |-> r.ctxOk, ctxLabels |-> r.ctxLabels, out |-> r.out,
            netVars |-> {"a"}, n |-> 1, lib |-> [j \in 1..2 |-> {j - 1}]]
VARIABLE run
Init == run \in Runs /\ \E oldThere \in BOOLEAN : CInitWith(oldThere)
Next == CNext(Full(run)) /\ UNCHANGED run
Spec == Init /\ [][Next]_<<cvars, run>> /\ WF_cvars(Next)
Inv == InOrder /\ FailQuiet /\ FailKeepsOld /\ Replaced /\ Complete(Full(run))
Terminates == <>(pc \in {"done", "failed"})
=============================================================================
