INIT Init
NEXT Next
INVARIANT Inv
INVARIANT Verdict
CHECK_DEADLOCK FALSE
