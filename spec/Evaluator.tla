------------------------------ MODULE Evaluator ------------------------------
(***************************************************************************)
(* The evaluator of src/evaluation: eval_node with its cache, duplicate    *)
(* counters and open quantifier scopes (EvalContext), the canoniser and    *)
(* the duplicate marker -- modelled branch by branch over the explicit     *)
(* coloured relations of Rel.tla.                                          *)
(*                                                                         *)
(* The model is written in state-passing style: EvalNode takes the mutable *)
(* context  ctx = [cache, dups, fvd, log, panic]  and returns the value    *)
(* together with the new context, exactly as the Rust function mutates     *)
(* `eval_context`.  One formula of a batch is one step of the state        *)
(* machine in MC_Evaluator (the cache persists between steps -- that is    *)
(* the history C04 quantifies over).  `log` is an observation-only record  *)
(* of the abstract events (hit / miss / save / evict / pattern / scope     *)
(* open / close / empty domain) in the order the code performs them; the   *)
(* same events are emitted by the cfg(hctl_verif) hooks in algorithm.rs    *)
(* and compared in Trace_Eval.tla.                                         *)
(*                                                                         *)
(* Environment record E: steady (tuples; empty for the self-loop-free      *)
(* variant), doms (domain label -> relation), props (proposition name ->   *)
(* set of states), logsets (record the value of every sub-formula).        *)
(***************************************************************************)
EXTENDS Rel, Syntax, TLC

VarIndex(name) == Len(name)           \* x -> 1, xx -> 2, ... (the code: name.len() - 1, zero-based)

(* ------------------------------------------------ canonization.rs ------ *)
(* one pass in text order, ONE unscoped map, names var0, var1, ... in the   *)
(* order of first binding / first occurrence                                *)
CanonName(n) == "var" \o ToString(n)
RECURSIVE CanonWalk(_, _)
CanonWalk(t, st) ==       \* st = [map, n]; result [t, st]
  LET UseVar(v, s) == IF v \in DOMAIN s.map THEN [name |-> s.map[v], st |-> s]
                      ELSE [name |-> CanonName(s.n), st |-> [map |-> (v :> CanonName(s.n)) @@ s.map, n |-> s.n + 1]]
  IN
  CASE t.op \in {"true", "false", "prop", "wild"} -> [t |-> t, st |-> st]
    [] t.op = "var" -> LET u == UseVar(t.v, st) IN [t |-> [op |-> "var", v |-> u.name], st |-> u.st]
    [] IsUnary(t) -> LET a == CanonWalk(t.a, st) IN [t |-> [op |-> t.op, a |-> a.t], st |-> a.st]
    [] IsBinary(t) -> LET a == CanonWalk(t.a, st) b == CanonWalk(t.b, a.st)
                      IN  [t |-> [op |-> t.op, a |-> a.t, b |-> b.t], st |-> b.st]
    [] t.op = "jump" -> LET u == UseVar(t.v, st) a == CanonWalk(t.a, u.st)
                        IN  [t |-> [op |-> "jump", v |-> u.name, dom |-> t.dom, a |-> a.t], st |-> a.st]
    [] OTHER ->          \* bind / exists / forall: a new name, overriding an older mapping
         LET nm == CanonName(st.n)
             s2 == [map |-> (t.v :> nm) @@ st.map, n |-> st.n + 1]
             a  == CanonWalk(t.a, s2)
         IN  [t |-> [op |-> t.op, v |-> nm, dom |-> t.dom, a |-> a.t], st |-> a.st]
EmptyMap == [x \in {} |-> ""]
Canon(t) == LET w == CanonWalk(t, [map |-> EmptyMap, n |-> 0]) IN [text |-> Render(w.t), ren |-> w.st.map]

(* the cache / duplicate key: canonical text + domains of the variables of the sub-formula that are *)
(* currently open (free), under their canonical names                                               *)
KeyOf(cn, fvd) ==
  LET vs == DOMAIN fvd \cap DOMAIN cn.ren IN
  [f |-> cn.text,
   d |-> [cv \in {cn.ren[v] : v \in vs} |-> fvd[CHOOSE v \in vs : cn.ren[v] = cv]]]
IsWild(t) == t.op = "wild"

(* ------------------------------------------------ mark_duplicates.rs --- *)
(* height-ordered queue; nodes of one height are compared by key; only sub-formulae with at most *)
(* one variable are marked; the sub-tree of a marked duplicate is not traversed                   *)
RECURSIVE InsertByHeight(_, _)
InsertByHeight(q, x) ==      \* keep the queue sorted by height, highest first (FIFO among equals)
  IF q = <<>> THEN <<x>>
  ELSE IF Height(q[1].t) >= Height(x.t) THEN <<q[1]>> \o InsertByHeight(Tail(q), x)
  ELSE <<x>> \o q
RECURSIVE InsertAll(_, _)
InsertAll(q, xs) == IF xs = <<>> THEN q ELSE InsertAll(InsertByHeight(q, xs[1]), Tail(xs))
ChildrenOf(x) ==
  LET t == x.t IN
  CASE t.op \in {"true", "false", "prop", "wild", "var"} -> <<>>
    [] IsUnary(t)  -> <<[t |-> t.a, env |-> x.env]>>
    [] IsBinary(t) -> <<[t |-> t.a, env |-> x.env], [t |-> t.b, env |-> x.env]>>
    [] t.op = "jump" -> <<[t |-> t.a, env |-> x.env]>>
    [] OTHER -> <<[t |-> t.a, env |-> (t.v :> t.dom) @@ x.env]>>
RECURSIVE MarkLoop(_, _, _, _)
MarkLoop(q, dups, seen, lastH) ==
  IF q = <<>> THEN dups
  ELSE
  LET x == q[1] rest == Tail(q) t == x.t IN
  IF t.op \in {"true", "false", "prop", "var"} THEN MarkLoop(rest, dups, seen, lastH)
  ELSE
  LET cn == Canon(t)
      key == KeyOf(cn, x.env)
      nvars == Cardinality(DOMAIN cn.ren)
  IN IF Height(t) = lastH
     THEN IF nvars <= 1 /\ key \in seen
          THEN MarkLoop(rest, (key :> (IF key \in DOMAIN dups THEN dups[key] + 1 ELSE 1)) @@ dups, seen, lastH)
          ELSE MarkLoop(InsertAll(rest, ChildrenOf(x)), dups, seen \cup {key}, lastH)
     ELSE MarkLoop(InsertAll(rest, ChildrenOf(x)), dups, {key}, Height(t))
NoDups == [x \in {} |-> 0]
MaxHeightOf(trees) == LET hs == {Height(trees[i]) : i \in 1..Len(trees)} IN CHOOSE h \in hs : \A g \in hs : g <= h
MarkDuplicates(trees) ==
  IF trees = <<>> THEN NoDups
  ELSE MarkLoop(InsertAll(<<>>, [i \in 1..Len(trees) |-> [t |-> trees[i], env |-> EmptyMap]]), NoDups, {}, MaxHeightOf(trees))

(* ------------------------------------------------ algorithm.rs --------- *)
IsAttractorPattern(t) ==
  t.op = "bind" /\ t.dom = "" /\ t.a.op = "AG" /\ t.a.a.op = "EF" /\ t.a.a.a.op = "var" /\ t.a.a.a.v = t.v
IsFixedPointPattern(t) ==
  t.op = "bind" /\ t.dom = "" /\ t.a.op = "AX" /\ t.a.a.op = "var" /\ t.a.a.v = t.v

Log(ctx, ev) == [ctx EXCEPT !.log = Append(@, ev)]
(* the value every sub-formula evaluates to is part of the log only when E.logsets (trace validation) *)
RetEvent(node, G, val, E) == IF E.logsets THEN <<"ret", Render(node), TuplesOf(G, val)>> ELSE <<"ret", Render(node)>>
Without(f, k) == [x \in DOMAIN f \ {k} |-> f[x]]

(* eval_hybrid_quantifier: G the graph of the quantifier node, G2 the graph the body was evaluated on *)
Quantify(G, G2, op, i, child) ==
  LET inDom == Cap(G, child, G2.unit) IN
  CASE op = "bind"   -> Bind(G, inDom, i)
    [] op = "exists" -> Exists(G, inDom, i)
    [] op = "forall" -> Neg(G, Exists(G, Neg(G2, child), i))

RECURSIVE EvalNode(_, _, _, _)
EvalNode(node, G, ctx0, E) ==
  LET cn  == Canon(node)
      key == KeyOf(cn, ctx0.fvd)
  IN
  IF key \in DOMAIN ctx0.dups /\ key \in DOMAIN ctx0.cache
  THEN  \* ---- cache hit: decrement, fetch, evict at zero (never a wild-card), rename back
    LET left  == ctx0.dups[key] - 1
        entry == ctx0.cache[key]
        evict == left = 0 /\ ~IsWild(node)
        c1 == [ctx0 EXCEPT !.dups = IF evict THEN Without(@, key) ELSE (key :> left) @@ @,
                           !.cache = IF evict THEN Without(@, key) ELSE @]
        c2 == Log(c1, <<"hit", key.f, left, evict>>)
        \* result_renaming: names used when the entry was saved -> canonical; renaming: current -> canonical
        pairs == {<<vr, CHOOSE vc \in DOMAIN cn.ren : cn.ren[vc] = entry.ren[vr]>> : vr \in DOMAIN entry.ren}
        RenameAll[S \in SUBSET pairs] ==
          IF S = {} THEN entry.set
          ELSE LET p == CHOOSE p \in S : TRUE IN Substitute(G, RenameAll[S \ {p}], VarIndex(p[1]), VarIndex(p[2]))
        res == RenameAll[pairs]
    IN [val |-> res, ctx |-> Log(c2, RetEvent(node, G, res, E))]
  ELSE
    LET marked == key \in DOMAIN ctx0.dups
        \* a result computed under a restricted domain of a quantifier whose variable does not occur
        \* in the sub-formula is valid on that restricted graph only: it is not shared
        save == marked /\ \A v \in DOMAIN ctx0.fvd : ctx0.fvd[v] = "" \/ v \in DOMAIN cn.ren
        ctx == IF marked THEN Log(ctx0, <<"miss", key.f, save>>) ELSE ctx0
        Saved0(r) == IF save THEN [val |-> r.val,
                                   ctx |-> Log([r.ctx EXCEPT !.cache = (key :> [set |-> r.val, ren |-> cn.ren, tree |-> node, fvd |-> ctx0.fvd]) @@ @],
                                               <<"save", key.f>>)]
                     ELSE r
        Ret(r)   == [val |-> r.val, ctx |-> Log(r.ctx, RetEvent(node, G, r.val, E))]
        Saved(r) == Ret(Saved0(r))
    IN
    IF IsAttractorPattern(node) THEN Saved([val |-> Attractors(G), ctx |-> Log(ctx, <<"pattern", "attractor">>)])
    ELSE IF IsFixedPointPattern(node) THEN Ret([val |-> E.steady, ctx |-> Log(ctx, <<"pattern", "fixed-point">>)])   \* never cached
    ELSE
    CASE node.op = "true"  -> Saved([val |-> G.unit, ctx |-> ctx])
      [] node.op = "false" -> Saved([val |-> Empty(G), ctx |-> ctx])
      [] node.op = "var"   -> Saved([val |-> CompVarState(G, VarIndex(node.v)), ctx |-> ctx])
      [] node.op = "prop"  -> Saved([val |-> Mk(G, LAMBDA sl : G.unit[sl] \cap E.props[node.name]), ctx |-> ctx])
      [] node.op = "wild"  -> [val |-> Empty(G), ctx |-> [ctx EXCEPT !.panic = TRUE]]    \* unreachable!()
      [] IsUnary(node) ->
           LET a == EvalNode(node.a, G, ctx, E) IN
           Saved([ctx |-> a.ctx, val |->
             CASE node.op = "not" -> Neg(G, a.val)
               [] node.op = "EX"  -> EX(G, a.val, E.steady)
               [] node.op = "AX"  -> AX(G, a.val, E.steady)
               [] node.op = "EF"  -> EF(G, a.val)
               [] node.op = "AF"  -> AF(G, a.val, E.steady)
               [] node.op = "EG"  -> EG(G, a.val, E.steady)
               [] node.op = "AG"  -> AG(G, a.val)])
      [] IsBinary(node) ->
           LET a == EvalNode(node.a, G, ctx, E)
               b == EvalNode(node.b, G, a.ctx, E)          \* left before right, one context
           IN Saved([ctx |-> b.ctx, val |->
             CASE node.op = "and" -> Cap(G, a.val, b.val)
               [] node.op = "or"  -> Cup(G, a.val, b.val)
               [] node.op = "xor" -> Xor(G, a.val, b.val)
               [] node.op = "imp" -> Imp(G, a.val, b.val)
               [] node.op = "iff" -> Iff(G, a.val, b.val)
               [] node.op = "EU"  -> EU(G, a.val, b.val)
               [] node.op = "AU"  -> AU(G, a.val, b.val, E.steady)
               [] node.op = "EW"  -> EW(G, a.val, b.val, E.steady)
               [] node.op = "AW"  -> AW(G, a.val, b.val)])
      [] node.op = "jump" ->
           LET a == EvalNode(node.a, G, ctx, E) IN
           Saved([ctx |-> a.ctx, val |-> Jump(G, a.val, VarIndex(node.v))])
      [] OTHER ->      \* bind / exists / forall
           LET i    == VarIndex(node.v)
               open == Log([ctx EXCEPT !.fvd = (node.v :> node.dom) @@ @], <<"open", node.v, node.dom>>)
               Close(c) == Log([c EXCEPT !.fvd = Without(@, node.v)], <<"close", node.v>>)
           IN
           IF node.dom = ""
           THEN LET a == EvalNode(node.a, G, open, E) IN
                Saved([val |-> Quantify(G, G, node.op, i, a.val), ctx |-> Close(a.ctx)])
           ELSE LET vd == DomainOf(G, E.doms[node.dom], i) IN
                IF IsEmpty(G, vd)
                THEN \* empty domain (within the current graph): early return, nothing is saved
                     Ret([val |-> IF node.op = "forall" THEN G.unit ELSE Empty(G),
                          ctx |-> Close(Log(open, <<"empty", node.v>>))])
                ELSE LET G2 == Restrict(G, vd)
                         a  == EvalNode(node.a, G2, open, E)
                     IN  Saved([val |-> Quantify(G, G2, node.op, i, a.val), ctx |-> Close(a.ctx)])

(* ------------------------------------------------ model_checking.rs ---- *)
EmptyCtx == [cache |-> [x \in {} |-> 0], dups |-> NoDups, fvd |-> EmptyMap, log |-> <<>>, panic |-> FALSE]
(* extend_context_with_wild_cards: every wild-card proposition is preloaded into the cache and its *)
(* counter incremented, so that even its first occurrence is a cache hit                           *)
WildKey(l) == [f |-> "%" \o l \o "%", d |-> EmptyMap]
RECURSIVE Preload(_, _, _)
Preload(ctx, labels, sets) ==
  IF labels = {} THEN ctx
  ELSE LET l == CHOOSE l \in labels : TRUE
           k == WildKey(l)
           c == [ctx EXCEPT !.dups = (k :> (IF k \in DOMAIN @ THEN @[k] + 1 ELSE 1)) @@ @,
                            !.cache = (k :> [set |-> sets[l], ren |-> EmptyMap, tree |-> [op |-> "wild", name |-> l], fvd |-> EmptyMap]) @@ @]
       IN  Preload(c, labels \ {l}, sets)
RECURSIVE WildLabels(_)
WildLabels(t) ==
  CASE t.op = "wild" -> {t.name}
    [] t.op \in {"true", "false", "prop", "var"} -> {}
    [] IsBinary(t) -> WildLabels(t.a) \cup WildLabels(t.b)
    [] OTHER -> WildLabels(t.a)
AllWildLabels(trees) == UNION {WildLabels(trees[i]) : i \in 1..Len(trees)}

(* the context a batch starts with; wild: label -> tuples *)
StartCtx(trees, wild) == Preload([EmptyCtx EXCEPT !.dups = MarkDuplicates(trees)], AllWildLabels(trees), wild)
(* sharing disabled: nothing is marked; wild-cards are always served *)
NoSharingCtx(trees, wild) ==
  LET c == Preload(EmptyCtx, AllWildLabels(trees), wild) IN
  [c EXCEPT !.dups = [k \in DOMAIN @ |-> 1000]]

(* evaluate a whole batch, threading one context; result [outs, ctx] *)
RECURSIVE RunFrom(_, _, _, _, _, _)
RunFrom(trees, j, G, ctx, E, outs) ==
  IF j > Len(trees) THEN [outs |-> outs, ctx |-> ctx]
  ELSE LET r == EvalNode(trees[j], G, ctx, E) IN RunFrom(trees, j + 1, G, r.ctx, E, Append(outs, r.val))
RunBatch(trees, G, E, wild) == RunFrom(trees, 1, G, StartCtx(trees, wild), E, <<>>)

(* ------------------------------------------------ properties ----------- *)
(* (the reference denotations are supplied by the instantiating module)    *)
InUnit(G, R)      == SubsetOf(G, R, G.unit)                                                \* C03
NoAuxDependence(G, R) == \A a, b \in G.slices : Col(a) = Col(b) => R[a] = R[b]                \* C03
ScopesBalanced(ctx)   == ctx.fvd = EmptyMap
CountersSane(ctx)     == \A k \in DOMAIN ctx.dups : ctx.dups[k] >= 0 \/ k.d = EmptyMap
NeverPanics(ctx)      == ~ctx.panic
=============================================================================
