------------------------------- MODULE MC_Cache -------------------------------
(***************************************************************************)
(* Mode A for the cache protocol (Cache.tla): every marking outcome over   *)
(* three ordinary keys and one wild-card key (counters 1..2, the wild-card *)
(* pre-loaded and counted once more), every schedule of visits - hits,     *)
(* misses with either answer of the save rule, nested evaluations, saves - *)
(* bounded only in the number of fetches of the wild-card (its counter is  *)
(* not bounded below).                                                     *)
(***************************************************************************)
EXTENDS Cache, TLC

(* keys of the model: k1 is closed, k2 has a free variable of an unrestricted quantifier, k3 one whose         *)
(* quantifier ranges over the domain "d"; w is a wild-card                                                     *)
MCKeyDom(k) == CASE k = "k1" -> "closed" [] k = "k2" -> "" [] k = "k3" -> "d" [] OTHER -> "closed"

VARIABLES d0, c0
vars == <<cvars, d0, c0>>

Ordinary == Keys \ Wild
Markings == UNION {[S -> 1..2] : S \in SUBSET Ordinary}
WildMarkings(m) ==     \* a wild-card of the context is pre-loaded and its counter is (occurrences marked) + 1
  {m} \cup {m @@ [k \in W |-> n] : W \in (SUBSET Wild) \ {{}}, n \in 1..3}

Init ==
  /\ \E m \in Markings : d0 \in WildMarkings(m)
  /\ c0 = (DOMAIN d0) \cap Wild
  /\ CacheInit(d0, c0)

Next ==
  /\ \/ \E k \in Keys : Hit(k) \/ Save(k) \/ Shortcut(k) \/ \E s \in BOOLEAN : Miss(k, s)
     \/ \E v \in {"x", "xx"}, d \in {"", "d", "e"} : Open(v, d)
     \/ \E v \in {"x", "xx"} : Close(v)
  /\ UNCHANGED <<d0, c0>>
Spec == Init /\ [][Next]_vars

Bound == \A k \in Wild : hits[k] <= 4

Inv ==
  /\ CacheWithinMarked
  /\ CountersPositive
  /\ FetchBound(d0)
  /\ WildKept(c0)
  /\ CachedWasSaved(c0)
  /\ StackDistinct
  /\ StoredValuesPortable
  /\ \A k \in Keys : SaveRule(k) = SaveRuleCounted(k)
=============================================================================
