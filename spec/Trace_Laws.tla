----------------------------- MODULE Trace_Laws -----------------------------
(***************************************************************************)
(* Mode C for law replays on models beyond explicit semantics.  The        *)
(* harness logs FACTS measured on BDDs: (law id, instance, outcome, equal).*)
(* The specification demands, for every law of the TLC-verified catalogue  *)
(* (Laws.Catalogue, Laws.Oracles) and every instance, a fact with          *)
(* outcome = "ok" and equal = TRUE.  This is a weaker binding than the     *)
(* point-wise comparison of Trace_Sem: it detects disagreement between two *)
(* computations of the implementation (or with the graph library), not     *)
(* disagreement of both with the reference semantics.                      *)
(***************************************************************************)
EXTENDS Laws, Json, IOUtils, TLC
Doc == JsonDeserialize(IOEnv.CASEFILE)
B2S(b) == IF b THEN "T" ELSE "F"
LawIds == {Catalogue[i].id : i \in 1..Len(Catalogue)} \cup {Oracles[i].id : i \in 1..Len(Oracles)}
          \cup {Substitutions[i].id : i \in 1..Len(Substitutions)}
FactOk(f) == f.law \in LawIds /\ f.outcome = "ok" /\ f.equal
VARIABLE fi
Init == fi \in 1..Len(Doc.facts)
Next == UNCHANGED fi
Verdict == LET f == Doc.facts[fi] IN PrintT(<<"VERDICT", f.id, <<B2S(FactOk(f))>>>>)
=============================================================================
