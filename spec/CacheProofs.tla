----------------------------- MODULE CacheProofs -----------------------------
(***************************************************************************)
(* TLAPS proof, without any bound, that the cache protocol of Cache.tla    *)
(* keeps StoredValuesPortable: a stored value was computed under no        *)
(* restricted quantifier scope other than that of the key's own variable.  *)
(* The inductive invariant adds, for every evaluation in progress that     *)
(* will store its result, that the scopes which were open when it began    *)
(* satisfied the save rule - and those scopes are still a prefix of the    *)
(* open ones (scopes are well nested).                                     *)
(***************************************************************************)
EXTENDS Cache, TLAPS

RestrictedUpTo(d) == {scopes[i].dom : i \in {j \in 1..d : scopes[j].dom # ""}}

TypeOK == /\ scopes \in Seq([var : STRING, dom : STRING])
          /\ stack \in Seq([key : Keys, depth : Nat])
FrameOK == \A j \in 1..Len(stack) :
             /\ stack[j].depth <= Len(scopes)
             /\ RestrictedUpTo(stack[j].depth) \subseteq {KeyDom(stack[j].key)}
IndInv == TypeOK /\ FrameOK /\ StoredValuesPortable

Next == \/ \E k \in Keys : Hit(k) \/ Save(k) \/ Shortcut(k) \/ \E s \in BOOLEAN : Miss(k, s)
        \/ \E v \in STRING, d \in STRING : Open(v, d)
        \/ \E v \in STRING : Close(v)

LEMMA InitInv == ASSUME NEW d0, NEW c0, CacheInit(d0, c0) PROVE IndInv
BY DEF CacheInit, IndInv, TypeOK, FrameOK, StoredValuesPortable

LEMMA RuleGivesPrefix ==
  ASSUME TypeOK, NEW k \in Keys, SaveRule(k)
  PROVE  RestrictedUpTo(Len(scopes)) \subseteq {KeyDom(k)}
BY DEF SaveRule, RestrictedUpTo, TypeOK

LEMMA RestrictedIsPrefix == Restricted = RestrictedUpTo(Len(scopes))
BY DEF Restricted, RestrictedUpTo

THEOREM Step == ASSUME IndInv, Next PROVE IndInv'
<1>1. CASE \E k \in Keys : Hit(k)
  BY <1>1 DEF Hit, IndInv, TypeOK, FrameOK, StoredValuesPortable, RestrictedUpTo
<1>2. CASE \E k \in Keys : Shortcut(k)
  <2> PICK k \in Keys : Shortcut(k) BY <1>2
  <2>1. /\ stack # <<>> /\ stack' = SubSeq(stack, 1, Len(stack) - 1)
        /\ UNCHANGED <<scopes, savedUnder>>
    BY DEF Shortcut
  <2>2. Len(stack') = Len(stack) - 1 /\ \A j \in 1..Len(stack') : stack'[j] = stack[j]
    BY <2>1 DEF IndInv, TypeOK
  <2>3. stack' \in Seq([key : Keys, depth : Nat])
    BY <2>1 DEF IndInv, TypeOK
  <2> QED BY <2>1, <2>2, <2>3 DEF IndInv, TypeOK, FrameOK, StoredValuesPortable, RestrictedUpTo
<1>3. CASE \E k \in Keys : Save(k)
  <2> PICK k \in Keys : Save(k) BY <1>3
  <2>1. /\ stack # <<>> /\ stack[Len(stack)].key = k /\ stack[Len(stack)].depth = Len(scopes)
        /\ stack' = SubSeq(stack, 1, Len(stack) - 1) /\ UNCHANGED scopes
        /\ savedUnder' = [x \in (DOMAIN savedUnder) \cup {k} |-> IF x = k THEN Restricted ELSE savedUnder[x]]
    BY DEF Save
  <2>2. Len(stack') = Len(stack) - 1 /\ \A j \in 1..Len(stack') : stack'[j] = stack[j]
    BY <2>1 DEF IndInv, TypeOK
  <2>3. stack' \in Seq([key : Keys, depth : Nat])
    BY <2>1 DEF IndInv, TypeOK
  <2>4. Len(stack) \in 1..Len(stack)
    BY <2>1 DEF IndInv, TypeOK
  <2>5. Restricted \subseteq {KeyDom(k)}
    BY <2>1, <2>4, RestrictedIsPrefix DEF IndInv, FrameOK
  <2>6. StoredValuesPortable'
    BY <2>1, <2>5 DEF IndInv, StoredValuesPortable
  <2>7. FrameOK'
    BY <2>1, <2>2 DEF IndInv, TypeOK, FrameOK, RestrictedUpTo
  <2> QED BY <2>1, <2>3, <2>6, <2>7 DEF IndInv, TypeOK
<1>4. CASE \E k \in Keys : \E s \in BOOLEAN : Miss(k, s)
  <2> PICK k \in Keys, s \in BOOLEAN : Miss(k, s) BY <1>4
  <2>1. /\ s = SaveRule(k) /\ UNCHANGED <<scopes, savedUnder>>
        /\ stack' = IF s THEN Append(stack, [key |-> k, depth |-> Len(scopes)]) ELSE stack
    BY DEF Miss
  <2>2. CASE ~s
    BY <2>1, <2>2 DEF IndInv, TypeOK, FrameOK, StoredValuesPortable, RestrictedUpTo
  <2>3. CASE s
    <3>1. stack' = Append(stack, [key |-> k, depth |-> Len(scopes)]) BY <2>1, <2>3
    <3>2. Len(scopes) \in Nat BY DEF IndInv, TypeOK
    <3>3. stack' \in Seq([key : Keys, depth : Nat]) BY <3>1, <3>2 DEF IndInv, TypeOK
    <3>4. /\ Len(stack') = Len(stack) + 1
          /\ \A j \in 1..Len(stack) : stack'[j] = stack[j]
          /\ stack'[Len(stack) + 1] = [key |-> k, depth |-> Len(scopes)]
      BY <3>1 DEF IndInv, TypeOK
    <3>5. RestrictedUpTo(Len(scopes)) \subseteq {KeyDom(k)}
      BY <2>1, <2>3, RuleGivesPrefix DEF IndInv
    <3>6. FrameOK'
      BY <2>1, <3>4, <3>5, <3>2 DEF IndInv, TypeOK, FrameOK, RestrictedUpTo
    <3> QED BY <2>1, <3>3, <3>6 DEF IndInv, TypeOK, StoredValuesPortable
  <2> QED BY <2>2, <2>3
<1>5. CASE \E v \in STRING, d \in STRING : Open(v, d)
  <2> PICK v \in STRING, d \in STRING : Open(v, d) BY <1>5
  <2>1. scopes' = Append(scopes, [var |-> v, dom |-> d]) /\ UNCHANGED <<stack, savedUnder>>
    BY DEF Open
  <2>2. /\ scopes' \in Seq([var : STRING, dom : STRING])
        /\ Len(scopes') = Len(scopes) + 1
        /\ \A i \in 1..Len(scopes) : scopes'[i] = scopes[i]
    BY <2>1 DEF IndInv, TypeOK
  <2>3. \A j \in 1..Len(stack) : RestrictedUpTo(stack[j].depth)' = RestrictedUpTo(stack[j].depth)
    BY <2>1, <2>2 DEF IndInv, TypeOK, FrameOK, RestrictedUpTo
  <2> QED BY <2>1, <2>2, <2>3 DEF IndInv, TypeOK, FrameOK, StoredValuesPortable
<1>6. CASE \E v \in STRING : Close(v)
  <2> PICK v \in STRING : Close(v) BY <1>6
  <2>1. /\ scopes # <<>> /\ scopes' = SubSeq(scopes, 1, Len(scopes) - 1)
        /\ \A j \in 1..Len(stack) : stack[j].depth < Len(scopes)
        /\ UNCHANGED <<stack, savedUnder>>
    BY DEF Close
  <2>2. /\ scopes' \in Seq([var : STRING, dom : STRING])
        /\ Len(scopes') = Len(scopes) - 1
        /\ \A i \in 1..(Len(scopes) - 1) : scopes'[i] = scopes[i]
    BY <2>1 DEF IndInv, TypeOK
  <2>3. \A j \in 1..Len(stack) : /\ stack[j].depth <= Len(scopes')
                                 /\ RestrictedUpTo(stack[j].depth)' = RestrictedUpTo(stack[j].depth)
    BY <2>1, <2>2 DEF IndInv, TypeOK, FrameOK, RestrictedUpTo
  <2> QED BY <2>1, <2>2, <2>3 DEF IndInv, TypeOK, FrameOK, StoredValuesPortable
<1> QED BY <1>1, <1>2, <1>3, <1>4, <1>5, <1>6 DEF Next

THEOREM Portable == IndInv => StoredValuesPortable
BY DEF IndInv

(***************************************************************************)
(* Second inductive invariant: the counters are integers over the marked   *)
(* keys, whatever is cached or about to be stored is marked, a key that is *)
(* being evaluated is not cached, no key is evaluated inside itself, and   *)
(* the counter of an ordinary key is positive as long as it exists.        *)
(***************************************************************************)
TypeOK2 == /\ duplicates \in [DOMAIN duplicates -> Int]
           /\ stack \in Seq([key : Keys, depth : Nat])
           /\ scopes \in Seq([var : STRING, dom : STRING])
PendingMarked    == \A j \in 1..Len(stack) : stack[j].key \in Marked
PendingNotCached == \A j \in 1..Len(stack) : stack[j].key \notin cache
Inv2 == TypeOK2 /\ CacheWithinMarked /\ CountersPositive /\ PendingMarked /\ PendingNotCached /\ StackDistinct

THEOREM Step2 == ASSUME Inv2, Next PROVE Inv2'
<1>1. CASE \E k \in Keys : Hit(k)
  <2> PICK k \in Keys : Hit(k) BY <1>1
  <2>1. k \in Marked /\ k \in cache /\ UNCHANGED <<stack, scopes>> BY DEF Hit
  <2>0. \A j \in 1..Len(stack) : stack[j].key # k BY <2>1 DEF Inv2, PendingNotCached
  <2>2. CASE duplicates[k] - 1 = 0 /\ k \notin Wild
    <3>1. duplicates' = Drop(duplicates, k) /\ cache' = cache \ {k} BY <2>2 DEF Hit
    <3>1a. duplicates' = [x \in (DOMAIN duplicates) \ {k} |-> duplicates[x]] BY <3>1 DEF Drop
    <3>2. DOMAIN duplicates' = (DOMAIN duplicates) \ {k} /\ \A x \in DOMAIN duplicates' : duplicates'[x] = duplicates[x]
      BY <3>1a
    <3>3. duplicates' \in [DOMAIN duplicates' -> Int] BY <3>1a DEF Inv2, TypeOK2
    <3> QED BY <2>0, <2>1, <3>1, <3>2, <3>3 DEF Inv2, TypeOK2, CacheWithinMarked, CountersPositive, PendingMarked, PendingNotCached, StackDistinct, Marked
  <2>3. CASE ~(duplicates[k] - 1 = 0 /\ k \notin Wild)
    <3>1. duplicates' = [duplicates EXCEPT ![k] = duplicates[k] - 1] /\ cache' = cache BY <2>3 DEF Hit
    <3>2. DOMAIN duplicates' = DOMAIN duplicates BY <3>1
    <3>3. duplicates[k] \in Int BY <2>1 DEF Inv2, TypeOK2, Marked
    <3>4. duplicates' \in [DOMAIN duplicates' -> Int] BY <3>1, <3>2, <3>3 DEF Inv2, TypeOK2
    <3>5. CountersPositive'
      <4> SUFFICES ASSUME NEW x \in Marked' \ Wild PROVE duplicates'[x] > 0 BY DEF CountersPositive
      <4>1. x \in Marked \ Wild BY <3>2 DEF Marked
      <4>2. duplicates[x] > 0 BY <4>1 DEF Inv2, CountersPositive
      <4>3. CASE x # k BY <4>2, <4>3, <3>1 DEF Marked
      <4>4. CASE x = k
        <5>1. duplicates[k] - 1 # 0 BY <2>3, <4>4
        <5>2. duplicates'[k] = duplicates[k] - 1 BY <3>1, <2>1 DEF Marked
        <5> QED BY <5>1, <5>2, <4>2, <4>4, <3>3
      <4> QED BY <4>3, <4>4
    <3> QED BY <2>1, <3>1, <3>2, <3>4, <3>5 DEF Inv2, TypeOK2, CacheWithinMarked, PendingMarked, PendingNotCached, StackDistinct, Marked
  <2> QED BY <2>2, <2>3
<1>2. CASE \E k \in Keys : Shortcut(k)
  <2> PICK k \in Keys : Shortcut(k) BY <1>2
  <2>1. stack # <<>> /\ stack' = SubSeq(stack, 1, Len(stack) - 1) /\ UNCHANGED <<duplicates, cache, scopes>> BY DEF Shortcut
  <2>2. Len(stack') = Len(stack) - 1 /\ \A j \in 1..Len(stack') : stack'[j] = stack[j] BY <2>1 DEF Inv2, TypeOK2
  <2>3. stack' \in Seq([key : Keys, depth : Nat]) BY <2>1 DEF Inv2, TypeOK2
  <2> QED BY <2>1, <2>2, <2>3 DEF Inv2, TypeOK2, CacheWithinMarked, CountersPositive, PendingMarked, PendingNotCached, StackDistinct, Marked
<1>3. CASE \E k \in Keys : Save(k)
  <2> PICK k \in Keys : Save(k) BY <1>3
  <2>1. /\ stack # <<>> /\ stack[Len(stack)].key = k /\ stack' = SubSeq(stack, 1, Len(stack) - 1)
        /\ cache' = cache \cup {k} /\ UNCHANGED <<duplicates, scopes>>
    BY DEF Save
  <2>2. Len(stack') = Len(stack) - 1 /\ \A j \in 1..Len(stack') : stack'[j] = stack[j] BY <2>1 DEF Inv2, TypeOK2
  <2>3. stack' \in Seq([key : Keys, depth : Nat]) BY <2>1 DEF Inv2, TypeOK2
  <2>4. Len(stack) \in 1..Len(stack) BY <2>1 DEF Inv2, TypeOK2
  <2>5. k \in Marked BY <2>1, <2>4 DEF Inv2, PendingMarked
  <2>6. \A j \in 1..Len(stack') : stack'[j].key # k
    BY <2>1, <2>2, <2>4 DEF Inv2, TypeOK2, StackDistinct
  <2> QED BY <2>1, <2>2, <2>3, <2>5, <2>6 DEF Inv2, TypeOK2, CacheWithinMarked, CountersPositive, PendingMarked, PendingNotCached, StackDistinct, Marked
<1>4. CASE \E k \in Keys : \E s \in BOOLEAN : Miss(k, s)
  <2> PICK k \in Keys, s \in BOOLEAN : Miss(k, s) BY <1>4
  <2>1. /\ k \in Marked /\ k \notin cache /\ \A j \in 1..Len(stack) : stack[j].key # k
        /\ stack' = IF s THEN Append(stack, [key |-> k, depth |-> Len(scopes)]) ELSE stack
        /\ UNCHANGED <<duplicates, cache, scopes>>
    BY DEF Miss
  <2>2. CASE ~s
    BY <2>1, <2>2 DEF Inv2, TypeOK2, CacheWithinMarked, CountersPositive, PendingMarked, PendingNotCached, StackDistinct, Marked
  <2>3. CASE s
    <3>1. stack' = Append(stack, [key |-> k, depth |-> Len(scopes)]) BY <2>1, <2>3
    <3>2. /\ Len(stack') = Len(stack) + 1
          /\ \A j \in 1..Len(stack) : stack'[j] = stack[j]
          /\ stack'[Len(stack) + 1] = [key |-> k, depth |-> Len(scopes)]
      BY <3>1 DEF Inv2, TypeOK2
    <3>3. Len(scopes) \in Nat BY DEF Inv2, TypeOK2
    <3>4. stack' \in Seq([key : Keys, depth : Nat]) BY <3>1, <3>3 DEF Inv2, TypeOK2
    <3> QED BY <2>1, <3>2, <3>4 DEF Inv2, TypeOK2, CacheWithinMarked, CountersPositive, PendingMarked, PendingNotCached, StackDistinct, Marked
  <2> QED BY <2>2, <2>3
<1>5. CASE \E v \in STRING, d \in STRING : Open(v, d)
  <2> PICK v \in STRING, d \in STRING : Open(v, d) BY <1>5
  <2>1. scopes' = Append(scopes, [var |-> v, dom |-> d]) /\ UNCHANGED <<duplicates, cache, stack>> BY DEF Open
  <2>2. scopes' \in Seq([var : STRING, dom : STRING]) BY <2>1 DEF Inv2, TypeOK2
  <2> QED BY <2>1, <2>2 DEF Inv2, TypeOK2, CacheWithinMarked, CountersPositive, PendingMarked, PendingNotCached, StackDistinct, Marked
<1>6. CASE \E v \in STRING : Close(v)
  <2> PICK v \in STRING : Close(v) BY <1>6
  <2>1. scopes # <<>> /\ scopes' = SubSeq(scopes, 1, Len(scopes) - 1) /\ UNCHANGED <<duplicates, cache, stack>> BY DEF Close
  <2>2. scopes' \in Seq([var : STRING, dom : STRING]) BY <2>1 DEF Inv2, TypeOK2
  <2> QED BY <2>1, <2>2 DEF Inv2, TypeOK2, CacheWithinMarked, CountersPositive, PendingMarked, PendingNotCached, StackDistinct, Marked
<1> QED BY <1>1, <1>2, <1>3, <1>4, <1>5, <1>6 DEF Next

LEMMA InitInv2 ==
  ASSUME NEW d0, d0 \in [DOMAIN d0 -> Int], NEW c0 \in SUBSET (DOMAIN d0),
         \A k \in (DOMAIN d0) \ Wild : d0[k] > 0, CacheInit(d0, c0)
  PROVE  Inv2
BY DEF CacheInit, Inv2, TypeOK2, CacheWithinMarked, CountersPositive, PendingMarked, PendingNotCached, StackDistinct, Marked

THEOREM Housekeeping == Inv2 => CacheWithinMarked /\ CountersPositive /\ StackDistinct
BY DEF Inv2

(***************************************************************************)
(* Third inductive invariant, relative to the state D0 / C0 that the       *)
(* marking pass and the wild-card pre-loading left: fetches made + fetches *)
(* left = fetches counted (so an ordinary key is fetched at most as often  *)
(* as counted: FetchBound), wild-card sets are never lost (WildKept), and  *)
(* whatever is cached was pre-loaded or stored by a Save (CachedWasSaved). *)
(***************************************************************************)
CONSTANTS D0, C0

TypeOK3 == /\ duplicates \in [DOMAIN duplicates -> Int]
           /\ hits \in [Keys -> Int]
           /\ D0 \in [DOMAIN D0 -> Int]
           /\ DOMAIN D0 \subseteq Keys
(* the books balance: fetches made + fetches left = fetches counted, and a key whose counter is gone was fetched *)
(* exactly as often as counted                                                                                  *)
Balance == /\ Marked \subseteq DOMAIN D0
           /\ \A k \in (DOMAIN D0) \ Wild :
                /\ k \in Marked => hits[k] + duplicates[k] = D0[k] /\ duplicates[k] > 0
                /\ k \notin Marked => hits[k] = D0[k]
Inv3 == TypeOK3 /\ Balance /\ WildKept(C0) /\ CachedWasSaved(C0)

LEMMA InitInv3 ==
  ASSUME D0 \in [DOMAIN D0 -> Int], DOMAIN D0 \subseteq Keys, \A k \in (DOMAIN D0) \ Wild : D0[k] > 0,
         CacheInit(D0, C0)
  PROVE  Inv3
BY DEF CacheInit, Inv3, TypeOK3, Balance, WildKept, CachedWasSaved, Marked

THEOREM Step3 == ASSUME Inv3, Next PROVE Inv3'
<1>1. CASE \E k \in Keys : Hit(k)
  <2> PICK k \in Keys : Hit(k) BY <1>1
  <2>1. /\ k \in Marked /\ k \in cache /\ UNCHANGED saved
        /\ hits' = [hits EXCEPT ![k] = hits[k] + 1]
    BY DEF Hit
  <2>h. /\ hits' \in [Keys -> Int] /\ hits'[k] = hits[k] + 1 /\ \A x \in Keys : x # k => hits'[x] = hits[x]
    BY <2>1 DEF Inv3, TypeOK3
  <2>d. duplicates[k] \in Int BY <2>1 DEF Inv3, TypeOK3, Marked
  <2>2. CASE duplicates[k] - 1 = 0 /\ k \notin Wild
    <3>1. duplicates' = Drop(duplicates, k) /\ cache' = cache \ {k} BY <2>2 DEF Hit
    <3>1a. duplicates' = [x \in (DOMAIN duplicates) \ {k} |-> duplicates[x]] BY <3>1 DEF Drop
    <3>2. DOMAIN duplicates' = (DOMAIN duplicates) \ {k} /\ \A x \in DOMAIN duplicates' : duplicates'[x] = duplicates[x]
      BY <3>1a
    <3>3. duplicates' \in [DOMAIN duplicates' -> Int] BY <3>1a DEF Inv3, TypeOK3
    <3>4. Balance'
      <4>1. Marked' \subseteq DOMAIN D0 BY <3>2 DEF Inv3, Balance, Marked
      <4>2. ASSUME NEW x \in (DOMAIN D0) \ Wild
            PROVE  /\ x \in Marked' => hits'[x] + duplicates'[x] = D0[x] /\ duplicates'[x] > 0
                   /\ x \notin Marked' => hits'[x] = D0[x]
        <5>1. CASE x = k
          <6>1. k \in (DOMAIN D0) \ Wild BY <5>1
          <6>2. hits[k] + duplicates[k] = D0[k] BY <6>1, <2>1 DEF Inv3, Balance
          <6>3. duplicates[k] = 1 BY <2>2, <2>d
          <6>4. hits'[k] = D0[k] BY <6>2, <6>3, <2>h DEF Inv3, TypeOK3
          <6>5. k \notin Marked' BY <3>2 DEF Marked
          <6> QED BY <5>1, <6>4, <6>5
        <5>2. CASE x # k
          <6>1. x \in Keys BY DEF Inv3, TypeOK3
          <6>2. hits'[x] = hits[x] BY <5>2, <6>1, <2>h
          <6>3. x \in Marked' <=> x \in Marked BY <5>2, <3>2 DEF Marked
          <6>4. x \in Marked => duplicates'[x] = duplicates[x] BY <5>2, <3>2, <6>3 DEF Marked
          <6> QED BY <6>2, <6>3, <6>4 DEF Inv3, Balance
        <5> QED BY <5>1, <5>2
      <4> QED BY <4>1, <4>2 DEF Balance
    <3>5. WildKept(C0)' BY <3>1, <2>2 DEF Inv3, WildKept
    <3>6. CachedWasSaved(C0)' BY <3>1, <2>1 DEF Inv3, CachedWasSaved
    <3> QED BY <2>h, <3>3, <3>4, <3>5, <3>6 DEF Inv3, TypeOK3
  <2>3. CASE ~(duplicates[k] - 1 = 0 /\ k \notin Wild)
    <3>1. duplicates' = [duplicates EXCEPT ![k] = duplicates[k] - 1] /\ cache' = cache BY <2>3 DEF Hit
    <3>2. DOMAIN duplicates' = DOMAIN duplicates BY <3>1
    <3>3. duplicates' \in [DOMAIN duplicates' -> Int] BY <3>1, <3>2, <2>d DEF Inv3, TypeOK3
    <3>4. Balance'
      <4>1. Marked' \subseteq DOMAIN D0 BY <3>2 DEF Inv3, Balance, Marked
      <4>2. ASSUME NEW x \in (DOMAIN D0) \ Wild
            PROVE  /\ x \in Marked' => hits'[x] + duplicates'[x] = D0[x] /\ duplicates'[x] > 0
                   /\ x \notin Marked' => hits'[x] = D0[x]
        <5>0. x \in Keys BY DEF Inv3, TypeOK3
        <5>1. CASE x = k
          <6>1. hits[k] + duplicates[k] = D0[k] /\ duplicates[k] > 0 BY <5>1, <2>1 DEF Inv3, Balance
          <6>2. duplicates'[k] = duplicates[k] - 1 BY <3>1, <2>1 DEF Marked
          <6>3. duplicates[k] - 1 # 0 BY <2>3, <5>1
          <6>4. hits[k] \in Int BY DEF Inv3, TypeOK3
          <6>5. D0[k] \in Int BY <5>1 DEF Inv3, TypeOK3
          <6> QED BY <5>1, <6>1, <6>2, <6>3, <6>4, <6>5, <2>h, <2>d, <2>1, <3>2 DEF Marked
        <5>2. CASE x # k
          <6>1. hits'[x] = hits[x] BY <5>2, <5>0, <2>h
          <6>2. x \in Marked => duplicates'[x] = duplicates[x] BY <5>2, <3>1 DEF Marked
          <6> QED BY <6>1, <6>2, <3>2 DEF Inv3, Balance, Marked
        <5> QED BY <5>1, <5>2
      <4> QED BY <4>1, <4>2 DEF Balance
    <3>5. WildKept(C0)' BY <3>1 DEF Inv3, WildKept
    <3>6. CachedWasSaved(C0)' BY <3>1, <2>1 DEF Inv3, CachedWasSaved
    <3> QED BY <2>h, <3>3, <3>4, <3>5, <3>6 DEF Inv3, TypeOK3
  <2> QED BY <2>2, <2>3
<1>2. CASE \E k \in Keys : Save(k)
  <2> PICK k \in Keys : Save(k) BY <1>2
  <2>1. cache' = cache \cup {k} /\ saved' = saved \cup {k} /\ UNCHANGED <<duplicates, hits>> BY DEF Save
  <2> QED BY <2>1 DEF Inv3, TypeOK3, Balance, WildKept, CachedWasSaved, Marked
<1>3. CASE \E k \in Keys : Shortcut(k)
  BY <1>3 DEF Shortcut, Inv3, TypeOK3, Balance, WildKept, CachedWasSaved, Marked
<1>4. CASE \E k \in Keys : \E s \in BOOLEAN : Miss(k, s)
  BY <1>4 DEF Miss, Inv3, TypeOK3, Balance, WildKept, CachedWasSaved, Marked
<1>5. CASE \E v \in STRING, d \in STRING : Open(v, d)
  BY <1>5 DEF Open, Inv3, TypeOK3, Balance, WildKept, CachedWasSaved, Marked
<1>6. CASE \E v \in STRING : Close(v)
  BY <1>6 DEF Close, Inv3, TypeOK3, Balance, WildKept, CachedWasSaved, Marked
<1> QED BY <1>1, <1>2, <1>3, <1>4, <1>5, <1>6 DEF Next

THEOREM Books ==
  ASSUME Inv3, \A k \in (DOMAIN D0) \ Wild : D0[k] > 0
  PROVE  FetchBound(D0) /\ WildKept(C0) /\ CachedWasSaved(C0)
<1>1. ASSUME NEW k \in (DOMAIN D0) \ Wild PROVE hits[k] <= D0[k]
  <2>1. hits[k] \in Int /\ D0[k] \in Int BY DEF Inv3, TypeOK3
  <2>2. CASE k \in Marked
    <3>1. hits[k] + duplicates[k] = D0[k] /\ duplicates[k] > 0 BY <2>2 DEF Inv3, Balance
    <3>2. duplicates[k] \in Int BY <2>2 DEF Inv3, TypeOK3, Marked
    <3> QED BY <2>1, <3>1, <3>2
  <2>3. CASE k \notin Marked BY <2>1, <2>3 DEF Inv3, Balance
  <2> QED BY <2>2, <2>3
<1> QED BY <1>1 DEF FetchBound, Inv3
=============================================================================
