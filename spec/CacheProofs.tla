----------------------------- MODULE CacheProofs -----------------------------
(***************************************************************************)
(* TLAPS proof, without any bound, that the cache protocol of Cache.tla    *)
(* keeps StoredValuesPortable: a stored value was computed under no        *)
(* restricted quantifier scope other than that of the key's own variable.  *)
(* The inductive invariant adds, for every evaluation in progress that     *)
(* will store its result, that the scopes which were open when it began    *)
(* satisfied the save rule - and those scopes are still a prefix of the    *)
(* open ones (scopes are well nested).                                     *)
(***************************************************************************)
EXTENDS Cache, TLAPS

RestrictedUpTo(d) == {scopes[i].dom : i \in {j \in 1..d : scopes[j].dom # ""}}

TypeOK == /\ scopes \in Seq([var : STRING, dom : STRING])
          /\ stack \in Seq([key : Keys, depth : Nat])
FrameOK == \A j \in 1..Len(stack) :
             /\ stack[j].depth <= Len(scopes)
             /\ RestrictedUpTo(stack[j].depth) \subseteq {KeyDom(stack[j].key)}
IndInv == TypeOK /\ FrameOK /\ StoredValuesPortable

Next == \/ \E k \in Keys : Hit(k) \/ Save(k) \/ Shortcut(k) \/ \E s \in BOOLEAN : Miss(k, s)
        \/ \E v \in STRING, d \in STRING : Open(v, d)
        \/ \E v \in STRING : Close(v)

LEMMA InitInv == ASSUME NEW d0, NEW c0, CacheInit(d0, c0) PROVE IndInv
BY DEF CacheInit, IndInv, TypeOK, FrameOK, StoredValuesPortable

LEMMA RuleGivesPrefix ==
  ASSUME TypeOK, NEW k \in Keys, SaveRule(k)
  PROVE  RestrictedUpTo(Len(scopes)) \subseteq {KeyDom(k)}
BY DEF SaveRule, RestrictedUpTo, TypeOK

LEMMA RestrictedIsPrefix == Restricted = RestrictedUpTo(Len(scopes))
BY DEF Restricted, RestrictedUpTo

THEOREM Step == ASSUME IndInv, Next PROVE IndInv'
<1>1. CASE \E k \in Keys : Hit(k)
  BY <1>1 DEF Hit, IndInv, TypeOK, FrameOK, StoredValuesPortable, RestrictedUpTo
<1>2. CASE \E k \in Keys : Shortcut(k)
  <2> PICK k \in Keys : Shortcut(k) BY <1>2
  <2>1. /\ stack # <<>> /\ stack' = SubSeq(stack, 1, Len(stack) - 1)
        /\ UNCHANGED <<scopes, savedUnder>>
    BY DEF Shortcut
  <2>2. Len(stack') = Len(stack) - 1 /\ \A j \in 1..Len(stack') : stack'[j] = stack[j]
    BY <2>1 DEF IndInv, TypeOK
  <2>3. stack' \in Seq([key : Keys, depth : Nat])
    BY <2>1 DEF IndInv, TypeOK
  <2> QED BY <2>1, <2>2, <2>3 DEF IndInv, TypeOK, FrameOK, StoredValuesPortable, RestrictedUpTo
<1>3. CASE \E k \in Keys : Save(k)
  <2> PICK k \in Keys : Save(k) BY <1>3
  <2>1. /\ stack # <<>> /\ stack[Len(stack)].key = k /\ stack[Len(stack)].depth = Len(scopes)
        /\ stack' = SubSeq(stack, 1, Len(stack) - 1) /\ UNCHANGED scopes
        /\ savedUnder' = [x \in (DOMAIN savedUnder) \cup {k} |-> IF x = k THEN Restricted ELSE savedUnder[x]]
    BY DEF Save
  <2>2. Len(stack') = Len(stack) - 1 /\ \A j \in 1..Len(stack') : stack'[j] = stack[j]
    BY <2>1 DEF IndInv, TypeOK
  <2>3. stack' \in Seq([key : Keys, depth : Nat])
    BY <2>1 DEF IndInv, TypeOK
  <2>4. Len(stack) \in 1..Len(stack)
    BY <2>1 DEF IndInv, TypeOK
  <2>5. Restricted \subseteq {KeyDom(k)}
    BY <2>1, <2>4, RestrictedIsPrefix DEF IndInv, FrameOK
  <2>6. StoredValuesPortable'
    BY <2>1, <2>5 DEF IndInv, StoredValuesPortable
  <2>7. FrameOK'
    BY <2>1, <2>2 DEF IndInv, TypeOK, FrameOK, RestrictedUpTo
  <2> QED BY <2>1, <2>3, <2>6, <2>7 DEF IndInv, TypeOK
<1>4. CASE \E k \in Keys : \E s \in BOOLEAN : Miss(k, s)
  <2> PICK k \in Keys, s \in BOOLEAN : Miss(k, s) BY <1>4
  <2>1. /\ s = SaveRule(k) /\ UNCHANGED <<scopes, savedUnder>>
        /\ stack' = IF s THEN Append(stack, [key |-> k, depth |-> Len(scopes)]) ELSE stack
    BY DEF Miss
  <2>2. CASE ~s
    BY <2>1, <2>2 DEF IndInv, TypeOK, FrameOK, StoredValuesPortable, RestrictedUpTo
  <2>3. CASE s
    <3>1. stack' = Append(stack, [key |-> k, depth |-> Len(scopes)]) BY <2>1, <2>3
    <3>2. Len(scopes) \in Nat BY DEF IndInv, TypeOK
    <3>3. stack' \in Seq([key : Keys, depth : Nat]) BY <3>1, <3>2 DEF IndInv, TypeOK
    <3>4. /\ Len(stack') = Len(stack) + 1
          /\ \A j \in 1..Len(stack) : stack'[j] = stack[j]
          /\ stack'[Len(stack) + 1] = [key |-> k, depth |-> Len(scopes)]
      BY <3>1 DEF IndInv, TypeOK
    <3>5. RestrictedUpTo(Len(scopes)) \subseteq {KeyDom(k)}
      BY <2>1, <2>3, RuleGivesPrefix DEF IndInv
    <3>6. FrameOK'
      BY <2>1, <3>4, <3>5, <3>2 DEF IndInv, TypeOK, FrameOK, RestrictedUpTo
    <3> QED BY <2>1, <3>3, <3>6 DEF IndInv, TypeOK, StoredValuesPortable
  <2> QED BY <2>2, <2>3
<1>5. CASE \E v \in STRING, d \in STRING : Open(v, d)
  <2> PICK v \in STRING, d \in STRING : Open(v, d) BY <1>5
  <2>1. scopes' = Append(scopes, [var |-> v, dom |-> d]) /\ UNCHANGED <<stack, savedUnder>>
    BY DEF Open
  <2>2. /\ scopes' \in Seq([var : STRING, dom : STRING])
        /\ Len(scopes') = Len(scopes) + 1
        /\ \A i \in 1..Len(scopes) : scopes'[i] = scopes[i]
    BY <2>1 DEF IndInv, TypeOK
  <2>3. \A j \in 1..Len(stack) : RestrictedUpTo(stack[j].depth)' = RestrictedUpTo(stack[j].depth)
    BY <2>1, <2>2 DEF IndInv, TypeOK, FrameOK, RestrictedUpTo
  <2> QED BY <2>1, <2>2, <2>3 DEF IndInv, TypeOK, FrameOK, StoredValuesPortable
<1>6. CASE \E v \in STRING : Close(v)
  <2> PICK v \in STRING : Close(v) BY <1>6
  <2>1. /\ scopes # <<>> /\ scopes' = SubSeq(scopes, 1, Len(scopes) - 1)
        /\ \A j \in 1..Len(stack) : stack[j].depth < Len(scopes)
        /\ UNCHANGED <<stack, savedUnder>>
    BY DEF Close
  <2>2. /\ scopes' \in Seq([var : STRING, dom : STRING])
        /\ Len(scopes') = Len(scopes) - 1
        /\ \A i \in 1..(Len(scopes) - 1) : scopes'[i] = scopes[i]
    BY <2>1 DEF IndInv, TypeOK
  <2>3. \A j \in 1..Len(stack) : /\ stack[j].depth <= Len(scopes')
                                 /\ RestrictedUpTo(stack[j].depth)' = RestrictedUpTo(stack[j].depth)
    BY <2>1, <2>2 DEF IndInv, TypeOK, FrameOK, RestrictedUpTo
  <2> QED BY <2>1, <2>2, <2>3 DEF IndInv, TypeOK, FrameOK, StoredValuesPortable
<1> QED BY <1>1, <1>2, <1>3, <1>4, <1>5, <1>6 DEF Next

THEOREM Portable == IndInv => StoredValuesPortable
BY DEF IndInv
=============================================================================
