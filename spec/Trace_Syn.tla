----------------------------- MODULE Trace_Syn -----------------------------
(***************************************************************************)
(* Mode C for the front end: events recorded from the real tokenizer,      *)
(* parser and tree constructors are judged against Syntax.tla.             *)
(* Event kinds (field `kind`):                                             *)
(*   "parse": text as classified characters; outcome of try_tokenize_* and *)
(*            parse_* in both languages (plain / extended), the trees as   *)
(*            pure structure (`*_tree`) and with the stored text/height of *)
(*            every node (`*_full`)                                        *)
(*   "build": a tree assembled with the public constructors, its stored    *)
(*            fields, its printed text and the result of parsing that text *)
(***************************************************************************)
EXTENDS Syntax, Json, IOUtils

Doc == JsonDeserialize(IOEnv.CASEFILE)
B2S(b) == IF b THEN "T" ELSE "F"

(* ---- C05: accepted exactly when derivable; the unique tree; tokens ---- *)
TokensAgree(e, mode, ext) ==
  LET l == Lex(e.chars, ext) IN
    IF l.ok THEN e[mode \o "_tok_outcome"] = "ok" /\ e[mode \o "_tokens"] = l.toks
    ELSE e[mode \o "_tok_outcome"] = "err"
TreeAgrees(e, mode, ext) ==
  LET exp == ParseChars(e.chars, ext) IN
    IF IsOk(exp) THEN e[mode \o "_outcome"] = "ok" /\ e[mode \o "_tree"] = exp
    ELSE e[mode \o "_outcome"] = "err"
JC05(e) ==
  /\ TokensAgree(e, "plain", FALSE) /\ TokensAgree(e, "ext", TRUE)
  /\ TreeAgrees(e, "plain", FALSE) /\ TreeAgrees(e, "ext", TRUE)
  \* the extended parser yields the same tree as the plain one on every plain formula
  /\ (e.plain_outcome = "ok" => e.ext_outcome = "ok" /\ e.ext_tree = e.plain_tree)

(* ---- C06: stored text / height of every node; print-parse round trip ---- *)
RECURSIVE Strip(_)
Strip(f) ==
  CASE f.op \in {"true", "false"} -> [op |-> f.op]
    [] f.op = "prop" -> [op |-> "prop", name |-> f.name]
    [] f.op = "wild" -> [op |-> "wild", name |-> f.name]
    [] f.op = "var"  -> [op |-> "var", v |-> f.v]
    [] IsUnary(f)  -> [op |-> f.op, a |-> Strip(f.a)]
    [] IsBinary(f) -> [op |-> f.op, a |-> Strip(f.a), b |-> Strip(f.b)]
    [] IsHybrid(f) -> [op |-> f.op, v |-> f.v, dom |-> f.dom, a |-> Strip(f.a)]
RECURSIVE Consistent(_)
Consistent(f) ==     \* every node's stored text and height are those of its structure
  /\ f.str = Render(Strip(f))
  /\ f.h = Height(Strip(f))
  /\ (IsUnary(f) \/ IsHybrid(f) => Consistent(f.a))
  /\ (IsBinary(f) => Consistent(f.a) /\ Consistent(f.b))
\* a parse event: trees produced by the parsers are consistent and survive print -> parse
JC06parse(e) ==
  /\ (e.plain_outcome = "ok" => Consistent(e.plain_full))
  /\ (e.ext_outcome = "ok" =>
        /\ Consistent(e.ext_full)
        /\ e.ext_reparsed_outcome = "ok" /\ e.ext_reparsed_tree = e.ext_tree
        \* the printed text is what the specification renders, and the specification parses it back
        /\ e.ext_printed = Render(e.ext_tree)
        /\ ParseChars(e.ext_printed_chars, TRUE) = e.ext_tree)
\* a build event: the tree given to the constructors
JC06build(e) ==
  /\ e.built_outcome = "ok"
  /\ e.built_tree = e.tree
  /\ Consistent(e.built_full)
  /\ e.printed = Render(e.tree)
  /\ e.reparsed_outcome = "ok" /\ e.reparsed_tree = e.tree
  /\ ParseChars(e.chars, TRUE) = e.tree

Judge(e, kind) ==
  CASE kind = "c05" -> B2S(JC05(e))
    [] kind = "c06parse" -> B2S(JC06parse(e))
    [] kind = "c06build" -> B2S(JC06build(e))

VARIABLE ei
Init == ei \in 1..Len(Doc.events)
Next == UNCHANGED ei
Verdict ==
  LET e == Doc.events[ei]
      v == [k \in 1..Len(e.kinds) |-> Judge(e, e.kinds[k])]
  IN  PrintT(<<"VERDICT", e.id, v>>)
=============================================================================
