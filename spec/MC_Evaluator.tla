---------------------------- MODULE MC_Evaluator ----------------------------
(***************************************************************************)
(* Mode A for the evaluator: TLC runs the state machine "one formula of a  *)
(* batch per step, one shared context" on a small network (a constant of   *)
(* the run, selected through NETFILE) for EVERY batch of a pool.  The      *)
(* evaluator is deterministic, so the evaluation context after j formulae  *)
(* is the state FUNCTION  Prefix == RunFrom(first j formulae)  of the      *)
(* state variables (bi, j); it is evaluated inside the invariants, where   *)
(* TLC caches intermediate values (the same computation inside an action   *)
(* was measured 10-40 times slower).  Checked in every state:              *)
(*   - each finished result is exactly the lifted reference denotation     *)
(*     (C01, C02, C12, C13), stays in the unit set and does not depend on  *)
(*     auxiliary variables (C03),                                          *)
(*   - the same formula evaluated in any batch / position gives the same   *)
(*     set as evaluated alone and with sharing disabled (C04),             *)
(*   - every cache entry is the lifted denotation of its sub-formula on    *)
(*     the scope it was saved in (CacheSound), scopes are balanced         *)
(*     between formulae, counters are sane, unreachable!() is not reached  *)
(*     (C14).                                                              *)
(* The pool is either the built-in family below or a JSON file of batches  *)
(* (BATCHFILE) produced by the generators.                                 *)
(***************************************************************************)
EXTENDS Evaluator, BoolNet, Hctl, Json, IOUtils

Doc  == JsonDeserialize(IOEnv.NETFILE)
N0   == Doc.net
KK   == IF "KK" \in DOMAIN IOEnv THEN (CHOOSE x \in 0..3 : ToString(x) = IOEnv.KK) ELSE 2
S0   == States(N0)
Valid0 == TLCEval(ValidColours(N0))
K0   == TLCEval([c \in Valid0 |-> TLCEval(NextF(N0, c))])
VarNames0 == {N0.vars[i] : i \in 1..NVars(N0)}
P0   == TLCEval([name \in VarNames0 |-> {s \in S0 : Bit(s, VarIdx(N0, name) - 1)}])
Slices0 == TLCEval(Slices(Colours(N0), S0, KK))
G0   == TLCEval([St |-> S0, Cs |-> Colours(N0), k |-> KK, slices |-> Slices0,
                 succ |-> TLCEval([c \in Colours(N0) |-> TLCEval(SuccF(N0, c))]),
                 pred |-> TLCEval([c \in Colours(N0) |-> TLCEval([s \in S0 |-> {p \in S0 : s \in Succ(N0, c, p)}])]),
                 unit |-> TLCEval([sl \in Slices0 |-> IF sl[1] \in Valid0 THEN S0 ELSE {}])])
W0   == 2^NVars(N0)
(* context sets: label -> [colour -> set of states], from the file; restricted to valid colours *)
(* (context sets lie inside the valid universe, as C02 assumes)                                 *)
ToSet(q) == {q[j] : j \in 1..Len(q)}
CtxPer == TLCEval([l \in DOMAIN Doc.ctx |->
             [c \in Colours(N0) |-> IF c \in Valid0 THEN {s \in S0 : (c * W0 + s) \in ToSet(Doc.ctx[l])} ELSE {}]])
CtxTuples == TLCEval([l \in DOMAIN CtxPer |-> Lift(G0, CtxPer[l])])
CtxPairs == CtxPer
D0 == TLCEval([c \in Valid0 |-> [l \in DOMAIN CtxPer |-> CtxPer[l][c]]])
E0 == TLCEval([steady |-> SteadyOf(G0), doms |-> CtxTuples, props |-> P0, logsets |-> FALSE])

(* the reference: lifted denotation of a closed formula, and of an open one under recorded scopes *)
LiftDenote(f) ==
  LET sat == TLCEval([c \in Valid0 |-> Sat(K0[c], S0, P0, D0[c], f, <<>>)]) IN
  Mk(G0, LAMBDA sl : IF sl[1] \in Valid0 THEN sat[sl[1]] ELSE {})
LiftOpen(f, fvd) ==
  LET fv == FreeVars(f)
      sat == TLCEval([c \in Valid0 |-> [val \in [fv -> S0] |-> Sat(K0[c], S0, P0, D0[c], f, val)]])
  IN Mk(G0, LAMBDA sl :
        IF sl[1] \in Valid0 /\ \A v \in fv : fvd[v] = "" \/ sl[1 + VarIndex(v)] \in D0[sl[1]][fvd[v]]
        THEN sat[sl[1]][[v \in fv |-> sl[1 + VarIndex(v)]]] ELSE {})

(* ---- the pool of batches ---- *)
(* built-in family: sub-formulae shared up to renaming, inside and outside (restricted) scopes,    *)
(* both optimised patterns and near-misses, wild-cards; used when the file brings no batches       *)
Pa == [op |-> "prop", name |-> N0.vars[1]]
Vx(v) == [op |-> "var", v |-> v]
Un1(o, a) == [op |-> o, a |-> a]
Bi2(o, a, b) == [op |-> o, a |-> a, b |-> b]
Hy(o, v, d, a) == [op |-> o, v |-> v, dom |-> d, a |-> a]
Bodies(v) == {Un1("AX", Vx(v)), Un1("EF", Vx(v)), Bi2("and", Vx(v), Pa), Un1("AG", Un1("EF", Vx(v)))}
HasD == "d" \in DOMAIN CtxPairs
Doms == IF HasD THEN {"", "d"} ELSE {""}
Closed1 == {Hy(q, "x", d, b) : q \in {"bind", "exists", "forall"}, d \in Doms, b \in Bodies("x")}
Nested  == {Hy("bind", "x", d, Bi2("and", Hy("exists", "xx", "", b), Vx("x"))) : d \in Doms, b \in Bodies("xx")}
Jumps   == {Hy("exists", "x", d, Hy("jump", "x", "", b)) : d \in Doms, b \in Bodies("x")}
Plain   == {Un1("EF", Pa), Bi2("EU", Pa, Un1("not", Pa)), Un1("EG", Pa)}
BuiltinPool == Closed1 \cup Nested \cup Jumps \cup Plain
PoolSeq == CHOOSE s \in [1..Cardinality(BuiltinPool) -> BuiltinPool] : \A a, b \in 1..Cardinality(BuiltinPool) : a # b => s[a] # s[b]
BuiltinBatches ==
  LET n == Cardinality(BuiltinPool) IN
  [m \in 1..(n * n) |-> <<PoolSeq[((m - 1) \div n) + 1], PoolSeq[((m - 1) % n) + 1]>>]
(* A cached value is the lifted denotation of its sub-formula ON THE UNIVERSE OF ITS SCOPE: valid   *)
(* colours, and the sub-formula's free variables inside their domains.  Outside that universe a     *)
(* value may hold anything (leaf values such as wild-card sets are not restricted; the quantifier   *)
(* intersects its body with the restricted unit set before it binds the variable).                  *)
InScopeEqual(A, B, f, fvd) ==
  LET fv == FreeVars(f) IN
  \A sl \in G0.slices :
    (sl[1] \in Valid0 /\ \A v \in fv : fvd[v] = "" \/ sl[1 + VarIndex(v)] \in D0[sl[1]][fvd[v]]) => A[sl] = B[sl]
Batches == IF Len(Doc.batches) > 0 THEN Doc.batches ELSE BuiltinBatches
EnvNat(name, default) == IF name \in DOMAIN IOEnv THEN (CHOOSE x \in 0..4096 : ToString(x) = IOEnv[name]) ELSE default
Parts == EnvNat("PARTS", 1)
Part  == EnvNat("PART", 0)
Stride == EnvNat("STRIDE", 1)     \* the quick tier samples every STRIDE-th batch

VARIABLES bi, j
vars == <<bi, j>>
Batch == Batches[bi]
Init == /\ bi \in {b \in 1..Len(Batches) : b % Parts = Part /\ (b \div Parts) % Stride = 0}
        /\ j = 0
Step == j < Len(Batch) /\ j' = j + 1 /\ UNCHANGED bi       \* evaluate the next formula of the batch
Next == Step
Spec == Init /\ [][Next]_vars /\ WF_vars(Next)

(* the derived state: outputs so far and the evaluation context *)
Prefix == RunFrom(SubSeq(Batch, 1, j), 1, G0, StartCtx(Batch, CtxTuples), E0, <<>>)
Alone(f)    == EvalNode(f, G0, StartCtx(<<f>>, CtxTuples), E0).val
Unshared(f) == EvalNode(f, G0, NoSharingCtx(<<f>>, CtxTuples), E0).val

(* ---- invariants (each state checks the formula finished last; earlier ones were checked earlier) ---- *)
StateOK ==
  LET r == Prefix ctx == r.ctx IN
  /\ j > 0 =>
       LET out == r.outs[j] f == Batch[j] IN
         /\ out = LiftDenote(f)                                     \* ResultCorrect   (C01, C02, C12, C13)
         /\ InUnit(G0, out) /\ NoAuxDependence(G0, out)            \* ResultInUnit    (C03)
         /\ out = Alone(f) /\ out = Unshared(f)                    \* BatchTransparent (C04)
  /\ \A k \in DOMAIN ctx.cache :                                    \* CacheSound
        LET e == ctx.cache[k] IN e.tree.op = "wild" \/ InScopeEqual(e.set, LiftOpen(e.tree, e.fvd), e.tree, e.fvd)
  /\ ScopesBalanced(ctx) /\ CountersSane(ctx) /\ NeverPanics(ctx)  \* Housekeeping    (C14)
(* liveness: every batch is eventually finished *)
Finishes == <>(j = Len(Batch))
=============================================================================
