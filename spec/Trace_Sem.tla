----------------------------- MODULE Trace_Sem -----------------------------
(***************************************************************************)
(* Mode C, API level: validation of events recorded from the real entry    *)
(* points against the reference semantics.                                 *)
(*                                                                         *)
(* One TLC run judges one network (a constant of the run, selected through *)
(* the environment variable CASEFILE).  The file holds the network as data,*)
(* and a list of CASES; a case is a list of recorded CALLS (entry point,   *)
(* formulae as text and as generator-side ASTs, context sets and results   *)
(* as explicit sets of colour*2^n+state, outcome ok / err / panic).        *)
(* Each case names the judgements (`kinds`) to evaluate; the verdict of    *)
(* each is computed here, by TLC, and printed; the driver only counts.     *)
(***************************************************************************)
EXTENDS BoolNet, Scope, Json, IOUtils

Doc == JsonDeserialize(IOEnv.CASEFILE)
N0  == Doc.net
S0  == States(N0)
W0  == 2^NVars(N0)
Valid0 == TLCEval(ValidColours(N0))
K0  == TLCEval([c \in Valid0 |-> TLCEval(NextF(N0, c))])
VarNames0 == {N0.vars[i] : i \in 1..NVars(N0)}
P0  == TLCEval([name \in VarNames0 |-> {s \in S0 : Bit(s, VarIdx(N0, name) - 1)}])
Universe0 == TLCEval(UNION {{c * W0 + s : s \in S0} : c \in Valid0})
NoSteady0 == TLCEval(\A c \in Valid0 : Steady(N0, c) = {})

ToSet(q) == {q[j] : j \in 1..Len(q)}
Slice(R, c) == {s \in S0 : (c * W0 + s) \in R}

CtxOf(call) ==
  LET sets == [l \in DOMAIN call.ctx_sets |-> ToSet(call.ctx_sets[l])]
  IN  [c \in Valid0 |-> [l \in DOMAIN sets |-> Slice(sets[l], c)]]
DenoteIn(f, ctx) == UNION {{c * W0 + s : s \in Sat(K0[c], S0, P0, ctx[c], f, <<>>)} : c \in Valid0}

Res(call, i) == ToSet(call.res[i])
Ok(call) == call.outcome = "ok"

(* ---- the judgements ---- *)
(* denote: every result, restricted to valid colours, is exactly the denotation (C01, C02, C12, C13) *)
JDenote(case) ==
  \A ci \in 1..Len(case.calls) :
    LET call == case.calls[ci] ctx == CtxOf(call) IN
      /\ Ok(call)
      /\ \A i \in 1..Len(call.res) : (Res(call, i) \cap Universe0) = DenoteIn(call.asts[i], ctx)

(* unit: results stay inside the valid universe and do not depend on auxiliary variables (C03) *)
JUnit(case) ==
  \A ci \in 1..Len(case.calls) :
    LET call == case.calls[ci] IN
      Ok(call) => \A i \in 1..Len(call.res) : Res(call, i) \subseteq Universe0 /\ ~call.aux[i]

(* equal: results that carry the same formula id are the same set, in whichever call, position,  *)
(* batch or entry point they were computed (C04, C08, C10, C15)                                  *)
JEqual(case) ==
  \A ci, cj \in 1..Len(case.calls) :
    LET a == case.calls[ci] b == case.calls[cj] IN
      /\ Ok(a)
      /\ \A i \in 1..Len(a.ids) : \A j \in 1..Len(b.ids) :
            (Ok(b) /\ a.ids[i] = b.ids[j]) =>
                (Res(a, i) = Res(b, j) /\ a.aux[i] = b.aux[j])

(* rewrite: the calls of the case evaluate TEXTS that are supposed to be meaning-preserving      *)
(* rewrites of one formula (renaming, blanks, redundant or omitted parentheses, spellings).      *)
(* The specification first decides that they are: every text must parse, by the documented      *)
(* grammar, to a tree alpha-equivalent to the first one -- otherwise the case is not an instance *)
(* of C08 ("NA", a generator problem, never a violation).  Then the results must be equal.       *)
SameFormula(case) ==
  LET t1 == ParseChars(case.calls[1].fchars[1], case.calls[1].api \in {"ext", "ext_dirty", "multi_ext", "multi_ext_dirty"}) IN
    /\ IsOk(t1)
    /\ \A ci \in 1..Len(case.calls) :
         LET t == ParseChars(case.calls[ci].fchars[1], case.calls[ci].api \in {"ext", "ext_dirty", "multi_ext", "multi_ext_dirty"}) IN
           IsOk(t) /\ WellScoped(t, {}) /\ AlphaEq(t, t1)
JRewrite(case) == IF SameFormula(case) THEN (IF JEqual(case) THEN "T" ELSE "F") ELSE "NA"

(* canon: sanitised results use the canonical encoding and are compatible with a plain graph (C15) *)
JCanon(case) ==
  \A ci \in 1..Len(case.calls) :
    LET call == case.calls[ci] IN
      /\ Ok(call) /\ \A i \in 1..Len(call.res) : call.canon[i] /\ ~call.aux[i]
      \* the set as the API presents it (sizes of the set and of its two projections read through the set's own
      \* methods, which use the variable lists the set carries) is the set its BDD denotes in the canonical encoding
      /\ ("api_read" \in DOMAIN call =>
            \A i \in 1..Len(call.res) :
              call.api_read[i] = << Cardinality(Res(call, i)),
                                    Cardinality({x \div W0 : x \in Res(call, i)}),
                                    Cardinality({x % W0 : x \in Res(call, i)}) >>)
      \* sanitize_colors / sanitize_vertices on the projections of a raw result: the projections, canonically encoded
      /\ ("san_colors" \in DOMAIN call =>
            /\ call.san_proj_ok
            /\ ToSet(call.san_colors) = {x \div W0 : x \in Res(call, Len(call.res))}
            /\ ToSet(call.san_vertices) = {x % W0 : x \in Res(call, Len(call.res))})

(* unsafe: calls[1] standard raw evaluation, calls[2] the self-loop-free variant (C18).         *)
(* The antecedent is decided here: fragment without EX AX AF EG AU EW, or no steady state.      *)
JUnsafe(case) ==
  LET a == case.calls[1] b == case.calls[2] IN
    IF Fragment18(a.asts[1]) \/ NoSteady0
    THEN IF Ok(a) /\ Ok(b) /\ Res(a, 1) = Res(b, 1) /\ a.aux[1] = b.aux[1] THEN "T" ELSE "F"
    ELSE "NA"

(* slice: calls[1] on the parametrised network, calls[j>1] on the network instantiated by       *)
(* colour calls[j].colour; for valid colours slice = instantiated result = Sat in that colour   *)
(* (C20).  Context sets of an extended formula are DEFINED by closed plain formulae, evaluated   *)
(* on the respective network; the reference uses the recorded sets of the parametrised call.     *)
JSlice(case) ==
  LET a == case.calls[1] IN
    /\ Ok(a)
    /\ \A j \in 2..Len(case.calls) :
         LET b == case.calls[j] c == b.colour IN
           c \in Valid0 =>
             LET ref == Sat(K0[c], S0, P0, CtxOf(a)[c], a.asts[1], <<>>) IN
               /\ Ok(b)
               /\ Slice(Res(a, 1), c) = ref
               /\ ToSet(b.res[1]) = ref

(* api: never a panic; an error exactly when the input is invalid (C14, valid syntax part)      *)
ShouldErr(call) ==
  \E i \in 1..Len(call.asts) :
    LET f == call.asts[i] IN
      \/ ~WellScoped(f, {})
      \/ ~(Props(f) \subseteq VarNames0)
      \/ ~(Labels(f) \subseteq DOMAIN call.ctx_sets)
      \/ Depth(f) > call.k
JApi(case) ==
  \A ci \in 1..Len(case.calls) :
    LET call == case.calls[ci] IN
      /\ call.outcome \in {"ok", "err"}
      /\ (call.outcome = "err") <=> ShouldErr(call)

(* apistr: the same for ARBITRARY strings: the specification lexes and parses the recorded       *)
(* characters itself (Syntax.tla); text that is not a formula of the entry point's language     *)
(* must give an error as well (C14)                                                             *)
ExtApis == {"ext", "ext_dirty", "multi_ext", "multi_ext_dirty"}
ShouldErrStr(call) ==
  \E i \in 1..Len(call.fchars) :
    LET f == ParseChars(call.fchars[i], call.api \in ExtApis) IN
      \/ ~IsOk(f)
      \/ ~WellScoped(f, {})
      \/ ~(Props(f) \subseteq VarNames0)
      \/ ~(Labels(f) \subseteq DOMAIN call.ctx_sets)
      \/ Depth(f) > call.k
JApiStr(case) ==
  \A ci \in 1..Len(case.calls) :
    LET call == case.calls[ci] IN
      /\ call.outcome \in {"ok", "err"}
      /\ (call.outcome = "err") <=> ShouldErrStr(call)

B2S(b) == IF b THEN "T" ELSE "F"
(* The semantic properties quantify over closed, well-formed formulae whose labels have context  *)
(* sets and whose nesting depth the graph supports.  A case whose generator-side trees are not   *)
(* of that kind is outside every such property: "NA" (reported, never a violation).             *)
InScope(case) ==
  \A ci \in 1..Len(case.calls) :
    LET call == case.calls[ci] IN
      \A i \in 1..Len(call.asts) :
        LET f == call.asts[i] IN
          /\ WellScoped(f, {}) /\ Props(f) \subseteq VarNames0
          /\ Labels(f) \subseteq (IF "ctx_sets" \in DOMAIN call THEN DOMAIN call.ctx_sets ELSE DOMAIN call.ctx)
          /\ Depth(f) <= call.k
Guard(case, v) == IF InScope(case) THEN v ELSE "NA"
Judge(case, kind) ==
  CASE kind = "denote" -> Guard(case, B2S(JDenote(case)))
    [] kind = "unit"   -> Guard(case, B2S(JUnit(case)))
    [] kind = "equal"  -> Guard(case, B2S(JEqual(case)))
    [] kind = "canon"  -> Guard(case, B2S(JCanon(case)))
    [] kind = "rewrite" -> Guard(case, JRewrite(case))
    [] kind = "unsafe" -> Guard(case, JUnsafe(case))
    [] kind = "slice"  -> Guard(case, B2S(JSlice(case)))
    [] kind = "api"    -> B2S(JApi(case))
    [] kind = "apistr" -> B2S(JApiStr(case))

(* The library's unit set must be the specification's universe; a disagreement is a tool error *)
(* (the colour encoding or BoolNet.ValidColour is off), never a violation.                     *)
UnitAgrees == ToSet(Doc.unit_lib) = Universe0

VARIABLE ci
Init == ci \in 0..Len(Doc.cases)
Next == UNCHANGED ci
Verdict ==
  IF ci = 0
  THEN PrintT(<<"UNITCHECK", Doc.id, B2S(UnitAgrees), Cardinality(Valid0), Cardinality(Universe0)>>)
  ELSE LET case == Doc.cases[ci]
           v == [k \in 1..Len(case.kinds) |-> Judge(case, case.kinds[k])]
       IN  PrintT(<<"VERDICT", case.id, v>>)
=============================================================================
