------------------------------- MODULE Syntax -------------------------------
(***************************************************************************)
(* The LANGUAGE of (extended) HCTL formulae, written from README.md:       *)
(*   Lex      characters -> nested token sequence (or rejection)           *)
(*   Parse    the documented grammar, by precedence climbing               *)
(*   ImplLex  the tokenizing ALGORITHM of tokenizer.rs (character look-     *)
(*            ahead), for design-level comparison with Lex                 *)
(*   ImplParse the parsing ALGORITHM of parser.rs (split at the first      *)
(*            operator of each level), for design-level comparison         *)
(*   Render / Height  canonical fully parenthesised text and tree height   *)
(*                                                                         *)
(* Conventions the README leaves open, fixed here (they follow its examples*)
(* and the repository's own tokenizer tests):                              *)
(*  - a WORD is a maximal run of name characters (alphanumeric or '_');    *)
(*    a word is an operator only if it is exactly EX AX EF AF EG AG EU AU  *)
(*    EW AW, a quantifier only if it is exactly 3 or V; every other word   *)
(*    is a proposition (the constants true True 1 false False 0 are        *)
(*    recognised by the parser);                                           *)
(*  - blanks may separate any two tokens, including the parts of a hybrid  *)
(*    prefix  ! {x} in %d% :  but never occur inside {..}, %..%, =>, <=>,  *)
(*    \bind; `in` needs no surrounding blanks;                             *)
(*  - wild-cards and domains exist only in the extended language; a jump   *)
(*    never has a domain.                                                  *)
(*                                                                         *)
(* Characters arrive as records [c |-> one-character string, k |-> class]  *)
(* with class "n" (name character), "s" (white space) or "o" (other).      *)
(* Tokens are records:                                                     *)
(*   [k |-> "un", v], [k |-> "bin", v], [k |-> "hyb", op, var, dom],       *)
(*   [k |-> "atom", t |-> "prop"|"var"|"wild", name], [k |-> "grp", g]     *)
(* Trees use the JSON shape of Hctl.tla.                                   *)
(***************************************************************************)
EXTENDS Naturals, Sequences, FiniteSets, TLC

UnWords  == {"EX", "AX", "EF", "AF", "EG", "AG"}
BinWords == {"EU", "AU", "EW", "AW"}


TUn(v)   == [k |-> "un", v |-> v]
TBin(v)  == [k |-> "bin", v |-> v]
THyb(op, var, dom) == [k |-> "hyb", op |-> op, var |-> var, dom |-> dom]
TAtom(t, name) == [k |-> "atom", t |-> t, name |-> name]
TGrp(v)  == [k |-> "grp", g |-> v]

(* ------------------------------------------------------------------ Lex *)
IsName(cs, i)  == i <= Len(cs) /\ cs[i].k = "n"
IsSpace(cs, i) == i <= Len(cs) /\ cs[i].k = "s"
Is(cs, i, c)   == i <= Len(cs) /\ cs[i].c = c

RECURSIVE SkipWs(_, _)
SkipWs(cs, i) == IF IsSpace(cs, i) THEN SkipWs(cs, i + 1) ELSE i
RECURSIVE WordEnd(_, _)
WordEnd(cs, i) == IF IsName(cs, i) THEN WordEnd(cs, i + 1) ELSE i     \* first index after the word
RECURSIVE TextOf(_, _, _)
TextOf(cs, i, j) == IF i >= j THEN "" ELSE cs[i].c \o TextOf(cs, i + 1, j)   \* text of cs[i..j-1]

LexFail == [ok |-> FALSE]
(* {name}  starting at i (which must hold '{'); result [ok, name, i] *)
Braced(cs, i) ==
  IF ~Is(cs, i, "{") THEN LexFail
  ELSE LET e == WordEnd(cs, i + 1) IN
       IF e = i + 1 \/ ~Is(cs, e, "}") THEN LexFail
       ELSE [ok |-> TRUE, name |-> TextOf(cs, i + 1, e), i |-> e + 1]
(* %name%  starting at i *)
Percented(cs, i) ==
  IF ~Is(cs, i, "%") THEN LexFail
  ELSE LET e == WordEnd(cs, i + 1) IN
       IF e = i + 1 \/ ~Is(cs, e, "%") THEN LexFail
       ELSE [ok |-> TRUE, name |-> TextOf(cs, i + 1, e), i |-> e + 1]
(* the rest of a hybrid prefix after the operator symbol:  {x} [in %d%] :   *)
HybTail(cs, i, op, ext) ==
  LET b == Braced(cs, SkipWs(cs, i)) IN
  IF ~b.ok THEN LexFail
  ELSE LET j == SkipWs(cs, b.i) IN
       IF Is(cs, j, ":") THEN [ok |-> TRUE, tok |-> THyb(op, b.name, ""), i |-> j + 1]
       ELSE IF ext /\ op # "jump" /\ Is(cs, j, "i") /\ Is(cs, j + 1, "n")
            THEN LET p == Percented(cs, SkipWs(cs, j + 2)) IN
                 IF ~p.ok THEN LexFail
                 ELSE LET q == SkipWs(cs, p.i) IN
                      IF Is(cs, q, ":") THEN [ok |-> TRUE, tok |-> THyb(op, b.name, p.name), i |-> q + 1]
                      ELSE LexFail
            ELSE LexFail

(* LexSeq(cs, i, top, ext): tokens from position i up to the end (top) or up to the     *)
(* matching ')' (not top); result [ok, toks, i]                                          *)
RECURSIVE LexSeq(_, _, _, _)
LexSeq(cs, i0, top, ext) ==
  LET i == SkipWs(cs, i0) IN
  IF i > Len(cs) THEN (IF top THEN [ok |-> TRUE, toks |-> <<>>, i |-> i] ELSE LexFail)
  ELSE
  LET c == cs[i].c
      Cons(tok, j) == LET r == LexSeq(cs, j, top, ext) IN
                      IF r.ok THEN [ok |-> TRUE, toks |-> <<tok>> \o r.toks, i |-> r.i] ELSE LexFail
      Hyb(op, j) == LET h == HybTail(cs, j, op, ext) IN IF h.ok THEN Cons(h.tok, h.i) ELSE LexFail
  IN
  CASE c = ")" -> IF top THEN LexFail ELSE [ok |-> TRUE, toks |-> <<>>, i |-> i + 1]
    [] c = "(" -> LET g == LexSeq(cs, i + 1, FALSE, ext) IN
                  IF g.ok THEN Cons(TGrp(g.toks), g.i) ELSE LexFail
    [] c = "~" -> Cons(TUn("not"), i + 1)
    [] c = "&" -> Cons(TBin("and"), i + 1)
    [] c = "|" -> Cons(TBin("or"), i + 1)
    [] c = "^" -> Cons(TBin("xor"), i + 1)
    [] c = "=" -> IF Is(cs, i + 1, ">") THEN Cons(TBin("imp"), i + 2) ELSE LexFail
    [] c = "<" -> IF Is(cs, i + 1, "=") /\ Is(cs, i + 2, ">") THEN Cons(TBin("iff"), i + 3) ELSE LexFail
    [] c = "!" -> Hyb("bind", i + 1)
    [] c = "@" -> Hyb("jump", i + 1)
    [] c = "\\" -> LET e == WordEnd(cs, i + 1) w == TextOf(cs, i + 1, e) IN
                   IF w \in {"bind", "jump", "exists", "forall"} THEN Hyb(w, e) ELSE LexFail
    [] c = "{" -> LET b == Braced(cs, i) IN IF b.ok THEN Cons(TAtom("var", b.name), b.i) ELSE LexFail
    [] c = "%" -> IF ~ext THEN LexFail
                  ELSE LET p == Percented(cs, i) IN IF p.ok THEN Cons(TAtom("wild", p.name), p.i) ELSE LexFail
    [] OTHER ->
         IF ~IsName(cs, i) THEN LexFail
         ELSE LET e == WordEnd(cs, i) w == TextOf(cs, i, e) IN
              IF w \in UnWords THEN Cons(TUn(w), e)
              ELSE IF w \in BinWords THEN Cons(TBin(w), e)
              ELSE IF w = "3" THEN Hyb("exists", e)
              ELSE IF w = "V" THEN Hyb("forall", e)
              ELSE Cons(TAtom("prop", w), e)

Lex(cs, ext) == LET r == LexSeq(cs, 1, TRUE, ext) IN IF r.ok THEN [ok |-> TRUE, toks |-> r.toks] ELSE LexFail

(* ------------------------------------------------------------ ImplLex *)
(* The ALGORITHM of tokenizer.rs (try_tokenize_recursive, collect_name,      *)
(* collect_var_and_dom_from_operator): one pass with one character of        *)
(* look-ahead; E / A followed by X F G U W is an operator unless a name      *)
(* character follows, in which case the whole run is a proposition; 3 / V    *)
(* are quantifiers unless a name character follows.  MC_Lex compares it with *)
(* the word-based definition Lex on every string up to a length bound.       *)
TempLetters == {"X", "F", "G", "U", "W"}
ICollectName(cs, i) == WordEnd(cs, i)            \* collect_name: advance over name characters
IVarDom(cs, i0, op, domains) ==                  \* collect_var_and_dom_from_operator
  LET i == SkipWs(cs, i0) IN
  IF ~Is(cs, i, "{") THEN LexFail
  ELSE LET e == ICollectName(cs, i + 1) IN
       IF e = i + 1 THEN LexFail                           \* empty variable name
       ELSE IF ~Is(cs, e, "}") THEN LexFail
       ELSE LET j == SkipWs(cs, e + 1) name == TextOf(cs, i + 1, e) IN
            IF domains /\ Is(cs, j, "i")
            THEN IF ~Is(cs, j + 1, "n") THEN LexFail
                 ELSE LET p == SkipWs(cs, j + 2) IN
                      IF ~Is(cs, p, "%") THEN LexFail
                      ELSE LET d == ICollectName(cs, p + 1) IN
                           IF d = p + 1 THEN LexFail
                           ELSE IF ~Is(cs, d, "%") THEN LexFail
                           ELSE LET q == SkipWs(cs, d + 1) IN
                                IF Is(cs, q, ":") THEN [ok |-> TRUE, tok |-> THyb(op, name, TextOf(cs, p + 1, d)), i |-> q + 1]
                                ELSE LexFail
            ELSE IF Is(cs, j, ":") THEN [ok |-> TRUE, tok |-> THyb(op, name, ""), i |-> j + 1]
            ELSE LexFail
RECURSIVE ILexSeq(_, _, _, _)
ILexSeq(cs, i, top, ext) ==
  IF i > Len(cs) THEN (IF top THEN [ok |-> TRUE, toks |-> <<>>, i |-> i] ELSE LexFail)
  ELSE
  LET c == cs[i].c
      Cons(tok, j) == LET r == ILexSeq(cs, j, top, ext) IN
                      IF r.ok THEN [ok |-> TRUE, toks |-> <<tok>> \o r.toks, i |-> r.i] ELSE LexFail
      Hyb(op, j, domains) == LET h == IVarDom(cs, j, op, domains) IN IF h.ok THEN Cons(h.tok, h.i) ELSE LexFail
      NameFrom(j) == LET e == ICollectName(cs, j) IN Cons(TAtom("prop", TextOf(cs, i, e)), e)
      \* E / A: the next character is a temporal letter
      Temporal(first) ==
        LET c2 == cs[i + 1].c IN
        IF IsName(cs, i + 2) THEN NameFrom(i + 2)           \* part of a longer proposition name
        ELSE IF c2 \in {"X", "F", "G"} THEN Cons(TUn(first \o c2), i + 2) ELSE Cons(TBin(first \o c2), i + 2)
  IN
  IF cs[i].k = "s" THEN ILexSeq(cs, i + 1, top, ext)
  ELSE
  CASE c = "~" -> Cons(TUn("not"), i + 1)
    [] c = "&" -> Cons(TBin("and"), i + 1)
    [] c = "|" -> Cons(TBin("or"), i + 1)
    [] c = "^" -> Cons(TBin("xor"), i + 1)
    [] c = "=" -> IF Is(cs, i + 1, ">") THEN Cons(TBin("imp"), i + 2) ELSE LexFail
    [] c = "<" -> IF Is(cs, i + 1, "=") THEN (IF Is(cs, i + 2, ">") THEN Cons(TBin("iff"), i + 3) ELSE LexFail) ELSE LexFail
    [] c = ">" -> LexFail
    [] c \in {"E", "A"} /\ i + 1 <= Len(cs) /\ cs[i + 1].c \in TempLetters -> Temporal(c)
    [] c = "!" -> Hyb("bind", i + 1, ext)
    [] c = "3" /\ ~IsName(cs, i + 1) -> Hyb("exists", i + 1, ext)
    [] c = "V" /\ ~IsName(cs, i + 1) -> Hyb("forall", i + 1, ext)
    [] c = "@" -> Hyb("jump", i + 1, FALSE)
    [] c = "\\" -> LET e == ICollectName(cs, i + 1) w == TextOf(cs, i + 1, e) IN
                   IF w = "exists" THEN Hyb("exists", e, ext)
                   ELSE IF w = "forall" THEN Hyb("forall", e, ext)
                   ELSE IF w = "bind" THEN Hyb("bind", e, ext)
                   ELSE IF w = "jump" THEN Hyb("jump", e, FALSE)
                   ELSE LexFail
    [] c = ")" -> IF ~top THEN [ok |-> TRUE, toks |-> <<>>, i |-> i + 1] ELSE LexFail
    [] c = "(" -> LET g == ILexSeq(cs, i + 1, FALSE, ext) IN IF g.ok THEN Cons(TGrp(g.toks), g.i) ELSE LexFail
    [] c = "{" -> LET e == ICollectName(cs, i + 1) IN
                  IF e = i + 1 THEN LexFail
                  ELSE IF Is(cs, e, "}") THEN Cons(TAtom("var", TextOf(cs, i + 1, e)), e + 1) ELSE LexFail
    [] c = "%" /\ ext -> LET e == ICollectName(cs, i + 1) IN
                  IF e = i + 1 THEN LexFail
                  ELSE IF Is(cs, e, "%") THEN Cons(TAtom("wild", TextOf(cs, i + 1, e)), e + 1) ELSE LexFail
    [] OTHER -> IF cs[i].k = "n" THEN NameFrom(i + 1) ELSE LexFail
ImplLex(cs, ext) == LET r == ILexSeq(cs, 1, TRUE, ext) IN IF r.ok THEN [ok |-> TRUE, toks |-> r.toks] ELSE LexFail

(* ---------------------------------------------------------------- trees *)
Rej == [op |-> "REJECT"]
IsOk(t) == t.op # "REJECT"
TrueWords  == {"true", "True", "1"}
FalseWords == {"false", "False", "0"}
LeafOf(tok) ==
  CASE tok.t = "var"  -> [op |-> "var", v |-> tok.name]
    [] tok.t = "wild" -> [op |-> "wild", name |-> tok.name]
    [] tok.t = "prop" -> IF tok.name \in TrueWords THEN [op |-> "true"]
                         ELSE IF tok.name \in FalseWords THEN [op |-> "false"]
                         ELSE [op |-> "prop", name |-> tok.name]
U1(o, a)    == [op |-> o, a |-> a]
B2(o, a, b) == [op |-> o, a |-> a, b |-> b]
H1(tok, a)  == [op |-> tok.op, v |-> tok.var, dom |-> tok.dom, a |-> a]

(* ------------------------------------------- the documented grammar (C05) *)
(* formula  ::= hybrid-prefix formula | level1                                *)
(* level_l  ::= level_{l+1} [ op_l level_l ]      (right associative)          *)
(*              l = 1..6 : <=>, =>, |, ^, &, binary temporal                   *)
(* unary    ::= unary-op unary | primary                                       *)
(* primary  ::= atom | ( formula )                                             *)
(* Every token must be consumed.  Results of the G* operators: <<tree, rest>>. *)
BoolLevels == <<"iff", "imp", "or", "xor", "and">>
IsTemp(t) == t.k = "bin" /\ t.v \in BinWords
IsLvl(t, lvl) == IF lvl = 6 THEN IsTemp(t) ELSE t.k = "bin" /\ t.v = BoolLevels[lvl]
GFail == <<Rej, <<>>>>
RECURSIVE GFormula(_), GLevel(_, _), GUnary(_)
GPrimary(ts) ==
  IF ts = <<>> THEN GFail
  ELSE IF ts[1].k = "atom" THEN <<LeafOf(ts[1]), Tail(ts)>>
  ELSE IF ts[1].k = "grp" THEN LET t == GFormula(ts[1].g) IN IF IsOk(t) THEN <<t, Tail(ts)>> ELSE GFail
  ELSE GFail
GUnary(ts) ==
  IF ts # <<>> /\ ts[1].k = "un"
  THEN LET r == GUnary(Tail(ts)) IN IF IsOk(r[1]) THEN <<U1(ts[1].v, r[1]), r[2]>> ELSE GFail
  ELSE GPrimary(ts)
GLevel(ts, lvl) ==
  IF lvl = 7 THEN GUnary(ts)
  ELSE LET l == GLevel(ts, lvl + 1) IN
       IF ~IsOk(l[1]) THEN GFail
       ELSE IF l[2] # <<>> /\ IsLvl(l[2][1], lvl)
            THEN LET r == GLevel(Tail(l[2]), lvl) IN
                 IF IsOk(r[1]) THEN <<B2(l[2][1].v, l[1], r[1]), r[2]>> ELSE GFail
            ELSE l
GFormula(ts) ==
  IF ts = <<>> THEN Rej
  ELSE IF ts[1].k = "hyb" THEN LET a == GFormula(Tail(ts)) IN IF IsOk(a) THEN H1(ts[1], a) ELSE Rej
  ELSE LET r == GLevel(ts, 1) IN IF IsOk(r[1]) /\ r[2] = <<>> THEN r[1] ELSE Rej
Parse(ts) == GFormula(ts)

(* the whole front end: characters -> tree or rejection *)
ParseChars(cs, ext) == LET l == Lex(cs, ext) IN IF l.ok THEN Parse(l.toks) ELSE Rej

(* ---------------------------- the implementation's algorithm (parser.rs) *)
(* nine levels; every level splits the token sequence at the FIRST operator *)
(* of that level; two adjacency checks.                                     *)
RECURSIVE FirstIdx(_, _, _)
FirstIdx(ts, Q(_), i) == IF i > Len(ts) THEN 0 ELSE IF Q(ts[i]) THEN i ELSE FirstIdx(ts, Q, i + 1)
Before(ts, i) == SubSeq(ts, 1, i - 1)
After(ts, i) == SubSeq(ts, i + 1, Len(ts))
RECURSIVE I1(_), I7(_), I8(_), IBin(_, _)
I9(ts) == IF Len(ts) # 1 THEN Rej
          ELSE IF ts[1].k = "atom" THEN LeafOf(ts[1])
          ELSE IF ts[1].k = "grp" THEN I1(ts[1].g)
          ELSE Rej
I8(ts) == LET i == FirstIdx(ts, LAMBDA t : t.k = "un", 1) IN
          IF i = 0 THEN I9(ts)
          ELSE IF i > 1 THEN Rej          \* a unary operator must not be preceded by anything
          ELSE LET a == I8(After(ts, i)) IN IF IsOk(a) THEN U1(ts[i].v, a) ELSE Rej
I7(ts) == LET i == FirstIdx(ts, IsTemp, 1) IN
          IF i = 0 THEN I8(ts)
          ELSE LET a == I8(Before(ts, i)) b == I7(After(ts, i)) IN
               IF IsOk(a) /\ IsOk(b) THEN B2(ts[i].v, a, b) ELSE Rej
IBin(ts, lvl) ==   \* lvl 1..5 = iff, imp, or, xor, and
  IF lvl = 6 THEN I7(ts)
  ELSE LET i == FirstIdx(ts, LAMBDA t : t.k = "bin" /\ t.v = BoolLevels[lvl], 1) IN
       IF i = 0 THEN IBin(ts, lvl + 1)
       ELSE LET a == IBin(Before(ts, i), lvl + 1) b == IBin(After(ts, i), lvl) IN
            IF IsOk(a) /\ IsOk(b) THEN B2(ts[i].v, a, b) ELSE Rej
I1(ts) == LET i == FirstIdx(ts, LAMBDA t : t.k = "hyb", 1) IN
          IF i = 0 THEN IBin(ts, 1)
          ELSE IF i > 1 /\ ts[i-1].k # "hyb" THEN Rej
          ELSE LET a == I1(After(ts, i)) IN IF IsOk(a) THEN H1(ts[i], a) ELSE Rej
ImplParse(ts) == I1(ts)

(* ------------------------------------------------------ Render / Height *)
SymOf(o) ==
  CASE o = "not" -> "~" [] o = "and" -> "&" [] o = "or" -> "|" [] o = "xor" -> "^"
    [] o = "imp" -> "=>" [] o = "iff" -> "<=>" [] o = "bind" -> "!" [] o = "jump" -> "@"
    [] o = "exists" -> "3" [] o = "forall" -> "V" [] OTHER -> o
IsUnary(t)  == t.op \in {"not"} \cup UnWords
IsBinary(t) == t.op \in {"and", "or", "xor", "imp", "iff"} \cup BinWords
IsHybrid(t) == t.op \in {"bind", "jump", "exists", "forall"}
RECURSIVE Render(_)
Render(t) ==
  CASE t.op = "true"  -> "True"
    [] t.op = "false" -> "False"
    [] t.op = "prop"  -> t.name
    [] t.op = "var"   -> "{" \o t.v \o "}"
    [] t.op = "wild"  -> "%" \o t.name \o "%"
    [] t.op = "not"   -> "(~" \o Render(t.a) \o ")"
    [] IsUnary(t) /\ t.op # "not" -> "(" \o t.op \o " " \o Render(t.a) \o ")"
    [] IsBinary(t) -> "(" \o Render(t.a) \o " " \o SymOf(t.op) \o " " \o Render(t.b) \o ")"
    [] IsHybrid(t) -> "(" \o SymOf(t.op) \o "{" \o t.v \o "}"
                          \o (IF t.dom = "" THEN "" ELSE " in %" \o t.dom \o "%") \o ": " \o Render(t.a) \o ")"
Max(x, y) == IF x > y THEN x ELSE y
RECURSIVE Height(_)
Height(t) ==
  CASE t.op \in {"true", "false", "prop", "var", "wild"} -> 0
    [] IsUnary(t) \/ IsHybrid(t) -> 1 + Height(t.a)
    [] IsBinary(t) -> 1 + Max(Height(t.a), Height(t.b))
=============================================================================
