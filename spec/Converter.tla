------------------------------ MODULE Converter ------------------------------
(***************************************************************************)
(* The aeon -> bnet converter (src/bin/convert_aeon_to_bnet.rs).           *)
(*                                                                         *)
(* RELATION (what C19 states) between an input network A and an output     *)
(* network B, both as data in the format of BoolNet.tla:                   *)
(*  - B's variables are A's variables plus FRESH constants (variables      *)
(*    without update function that A does not have); B has no parameters;  *)
(*  - every variable of A with a regulator or an update function has an    *)
(*    explicit update function in B over A's variables and fresh constants *)
(*    whose truth table over A's states, as the constants range over all   *)
(*    values, ranges over EXACTLY the tables of A's function under all     *)
(*    interpretations (regulation constraints dropped);                    *)
(*  - a variable with neither regulators nor function stays a free input;  *)
(*  - nothing else is a target.                                            *)
(*                                                                         *)
(* ALGORITHM (what the code does): Shannon expansion of every unknown      *)
(* function over its argument expressions into zero-arity parameters named *)
(* <prefix><bits>.  Its model is checked against the relation in           *)
(* MC_Converter for every arity <= 3.                                      *)
(***************************************************************************)
EXTENDS BoolNet, TLC

VarSet(N) == {N.vars[i] : i \in 1..NVars(N)}
Fresh(A, B) == VarSet(B) \ VarSet(A)

RECURSIVE VarsIn(_)
VarsIn(f) ==      \* variable indices occurring in an update-function AST
  CASE f.op = "const" -> {}
    [] f.op = "var" -> {f.i}
    [] f.op = "not" -> VarsIn(f.a)
    [] f.op \in {"and", "or", "xor", "imp", "iff"} -> VarsIn(f.a) \cup VarsIn(f.b)
    [] f.op = "param" -> UNION {VarsIn(f.args[j]) : j \in 1..Len(f.args)}
RECURSIVE HasParam(_)
HasParam(f) ==
  CASE f.op \in {"const", "var"} -> FALSE
    [] f.op = "not" -> HasParam(f.a)
    [] f.op \in {"and", "or", "xor", "imp", "iff"} -> HasParam(f.a) \/ HasParam(f.b)
    [] f.op = "param" -> TRUE

(* a state of B from a state s of A and the set K of fresh constants that are true *)
RECURSIVE BStateFrom(_, _, _, _, _)
BStateFrom(A, B, s, K, j) ==
  IF j > NVars(B) THEN 0
  ELSE LET name == B.vars[j]
           on == IF name \in VarSet(A) THEN Bit(s, VarIdx(A, name) - 1) ELSE name \in K
       IN  (IF on THEN 2^(j - 1) ELSE 0) + BStateFrom(A, B, s, K, j + 1)
BState(A, B, s, K) == BStateFrom(A, B, s, K, 1)

IsTarget(A, v) == A.fns[v].op # "implicit" \/ A.fns[v].regs # <<>>
(* tables over A's states: functions States(A) -> BOOLEAN *)
InTables(A, v)  == {[s \in States(A) |-> Update(A, c, v, s)] : c \in Colours(A)}
OutTables(A, B, v) ==
  LET vb == VarIdx(B, A.vars[v])
      f  == B.fns[vb]
      used == {B.vars[i] : i \in VarsIn(f)} \cap Fresh(A, B)
  IN  {[s \in States(A) |-> EvalFn(B, 0, f, BState(A, B, s, K))] : K \in SUBSET used}

(* (bnet text cannot mention a variable that has no update function and regulates nothing that  *)
(* uses it; such a free input may be absent from the re-loaded output: it then trivially "remains *)
(* a free input", and the relation does not demand more than that)                               *)
Related(A, B) ==
  /\ \A v \in 1..NVars(A) : IsTarget(A, v) => A.vars[v] \in VarSet(B)
  /\ Len(B.params) = 0
  /\ \A v \in 1..NVars(A) :
       IF IsTarget(A, v)
       THEN LET vb == VarIdx(B, A.vars[v]) IN
              /\ B.fns[vb].op # "implicit"
              /\ ~HasParam(B.fns[vb])
              /\ VarsIn(B.fns[vb]) \subseteq {j \in 1..NVars(B) : B.vars[j] \in VarSet(A) \cup Fresh(A, B)}
              /\ OutTables(A, B, v) = InTables(A, v)
       ELSE A.vars[v] \in VarSet(B) =>
              LET vb == VarIdx(B, A.vars[v]) IN B.fns[vb].op = "implicit" /\ B.fns[vb].regs = <<>>   \* stays a free input
  /\ \A x \in Fresh(A, B) :                                           \* fresh constants are inputs
       LET xb == VarIdx(B, x) IN B.fns[xb].op = "implicit" /\ B.fns[xb].regs = <<>>

(* ---- the algorithm: explode_function ---- *)
(* args: sequence of argument ASTs; result: an AST over `args` and constants named prefix+bits, *)
(* represented as [op |-> "k", name] leaves                                                     *)
RECURSIVE Explode(_, _, _)
Explode(args, j, name) ==
  IF j > Len(args) THEN [op |-> "k", name |-> name]
  ELSE LET t == Explode(args, j + 1, name \o "1")
           e == Explode(args, j + 1, name \o "0")
       IN  [op |-> "and",
            a |-> [op |-> "imp", a |-> args[j], b |-> t],
            b |-> [op |-> "imp", a |-> [op |-> "not", a |-> args[j]], b |-> e]]
RECURSIVE EvalX(_, _, _)
EvalX(f, arg, K) ==      \* arg: values of the argument expressions, K: set of true constants
  CASE f.op = "k"   -> f.name \in K
    [] f.op = "a"   -> arg[f.i]
    [] f.op = "not" -> ~EvalX(f.a, arg, K)
    [] f.op = "and" -> EvalX(f.a, arg, K) /\ EvalX(f.b, arg, K)
    [] f.op = "imp" -> EvalX(f.a, arg, K) => EvalX(f.b, arg, K)
RECURSIVE Names(_)
Names(f) ==
  CASE f.op = "k" -> {f.name}
    [] f.op = "a" -> {}
    [] f.op = "not" -> Names(f.a)
    [] f.op \in {"and", "imp"} -> Names(f.a) \cup Names(f.b)
(* THEOREM for arity n: the tables of Explode over all constant valuations are all 2^(2^n) functions, *)
(* each exactly once, and there are 2^n distinct constants                                          *)
ExplodeComplete(n) ==
  LET args == [j \in 1..n |-> [op |-> "a", i |-> j]]
      f == Explode(args, 1, "p_")
      Args == [1..n -> BOOLEAN]
      tables == {[x \in Args |-> EvalX(f, x, K)] : K \in SUBSET Names(f)}
  IN  /\ Cardinality(Names(f)) = 2^n
      /\ tables = [Args -> BOOLEAN]
=============================================================================
