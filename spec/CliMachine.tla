----------------------------- MODULE CliMachine -----------------------------
(***************************************************************************)
(* The control skeleton of one run of the command-line tool, with the      *)
(* content of what is printed and archived abstracted away: the run has    *)
(* nEff effective formulae, fails or not before anything is evaluated,     *)
(* prints according to opt and writes an archive iff out.  Cli.tla is the  *)
(* same machine with the content; MC_Cli checks (TLC, refinement mapping)  *)
(* that every behaviour of Cli.tla is a behaviour of this module, and      *)
(* CliMachine's invariants are PROVED here for every nEff (TLAPS).         *)
(* Items of `printed` are [what, idx]: "message" (idx 0), "summary",       *)
(* "listing".  The archive is [written, old, n]: n entries written, `old`  *)
(* = an older archive sits at the output path.                             *)
(***************************************************************************)
EXTENDS Naturals, Sequences

VARIABLES pc, i, printed, archive,
          nEff, fails, opt, out        \* parameters of the run (never change)
vars == <<pc, i, printed, archive, nEff, fails, opt, out>>
Opts == {"no-print", "summary", "with-progress", "exhaustive"}

Item(w, j) == [what |-> w, idx |-> j]
Init == /\ pc = "start" /\ i = 1 /\ printed = <<>>
        /\ archive \in {[written |-> FALSE, old |-> b, n |-> 0] : b \in BOOLEAN}
        /\ nEff \in Nat /\ fails \in BOOLEAN /\ opt \in Opts /\ out \in BOOLEAN
Params == UNCHANGED <<nEff, fails, opt, out>>
Fail    == pc = "start" /\ fails /\ pc' = "failed" /\ printed' = <<Item("message", 0)>> /\ UNCHANGED <<i, archive>> /\ Params
Prepare == pc = "start" /\ ~fails /\ pc' = "eval" /\ UNCHANGED <<i, printed, archive>> /\ Params
Eval    == /\ pc = "eval" /\ i <= nEff
           /\ printed' = printed \o (CASE opt = "no-print" -> <<>>
                                       [] opt \in {"summary", "with-progress"} -> <<Item("summary", i)>>
                                       [] opt = "exhaustive" -> <<Item("summary", i), Item("listing", i)>>)
           /\ i' = i + 1 /\ UNCHANGED <<pc, archive>> /\ Params
Write   == /\ pc = "eval" /\ i = nEff + 1 /\ out
           /\ archive' = [written |-> TRUE, old |-> FALSE, n |-> nEff]
           /\ pc' = "done" /\ UNCHANGED <<i, printed>> /\ Params
Finish  == pc = "eval" /\ i = nEff + 1 /\ ~out /\ pc' = "done" /\ UNCHANGED <<i, printed, archive>> /\ Params
Next == Fail \/ Prepare \/ Eval \/ Write \/ Finish
Spec == Init /\ [][Next]_vars

(* ---- the properties ---- *)
InOrder == \A a, b \in 1..Len(printed) :
             (a < b /\ printed[a].what # "message" /\ printed[b].what # "message") => printed[a].idx <= printed[b].idx
FailQuiet    == pc = "failed" => printed = <<Item("message", 0)>> /\ ~archive.written
FailKeepsOld == pc = "failed" => archive.n = 0 /\ ~archive.written      \* nothing was written over what was there
Replaced     == archive.written => ~archive.old /\ archive.n = nEff      \* a written archive replaces the old one
Complete     == pc = "done" =>
                  /\ (opt # "no-print" => \A j \in 1..nEff : \E a \in 1..Len(printed) : printed[a] = Item("summary", j))
                  /\ (out => archive.written /\ archive.n = nEff)

=============================================================================
