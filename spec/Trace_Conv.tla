----------------------------- MODULE Trace_Conv -----------------------------
(* Mode C for C19: recorded runs of the convert-aeon-to-bnet binary (input network and the   *)
(* re-loaded output, both as data) judged against Converter.Related.                          *)
EXTENDS Converter, Json, IOUtils
Doc == JsonDeserialize(IOEnv.CASEFILE)
B2S(b) == IF b THEN "T" ELSE "F"
JC19(e) == e.exit = 0 /\ ~e.panicked /\ e.reload_ok /\ Related(e.net_in, e.net_out)
VARIABLE ei
Init == ei \in 1..Len(Doc.events)
Next == UNCHANGED ei
Verdict == LET e == Doc.events[ei] IN PrintT(<<"VERDICT", e.id, <<B2S(JC19(e))>>>>)
=============================================================================
