INIT Init
NEXT Next
INVARIANT RenameOK
INVARIANT RenameKeepsMeaning
INVARIANT CanonOK
INVARIANT DupsOK
CHECK_DEADLOCK FALSE
