INIT Init
NEXT Next
INVARIANT RenameOK
INVARIANT CanonOK
CHECK_DEADLOCK FALSE
