------------------------------ MODULE Trace_Cache ------------------------------
(***************************************************************************)
(* Trace validation of the cache protocol (Cache.tla): the events that the *)
(* cfg(hctl_verif) hooks of eval_node emit during a real evaluation - hit  *)
(* (key text, fetches left, entry evicted), miss (key text, answer of the  *)
(* save rule), save (key text) - are consumed one by one by the actions of *)
(* Cache.tla; every other event (scope open / close, pattern, return) is a *)
(* stuttering step of this module.  The state the marking pass left        *)
(* (EvalContext::from_multiple_trees + extend_context_with_wild_cards, the *)
(* public constructors the entry points use) is logged as the first record.*)
(*                                                                         *)
(* The hooks log the canonical TEXT of a key, not the domains that are     *)
(* part of it: when several marked keys share a text, TLC chooses (the     *)
(* logged `left` / `evict` fields prune the choice).  A trace is accepted  *)
(* iff some behaviour consumes all of it; Cache's invariants are checked   *)
(* in every state on the way.  Like Trace_Eval, a rejection is MODEL DRIFT *)
(* (NOTE), not a property violation by itself.                             *)
(***************************************************************************)
EXTENDS Naturals, Integers, Sequences, FiniteSets, TLC, Json, IOUtils

Doc == JsonDeserialize(IOEnv.CASEFILE)
MaxKeys == 64
DomLabels == {"closed", ""} \cup UNION {{Doc.traces[i].dups0[j].kdom : j \in 1..Len(Doc.traces[i].dups0)} : i \in 1..Len(Doc.traces)}
TraceKeys == [id : 1..MaxKeys, wild : BOOLEAN, dom : DomLabels]
TraceKeyDom(k) == k.dom
TraceWild == {k \in TraceKeys : k.wild}

VARIABLES duplicates, cache, stack, scopes, hits, saved, savedUnder, t, l
C == INSTANCE Cache WITH Keys <- TraceKeys, Wild <- TraceWild, KeyDom <- TraceKeyDom
tvars == <<duplicates, cache, stack, scopes, hits, saved, savedUnder, t, l>>

T == Doc.traces[t]
K(tr, i) == [id |-> i, wild |-> tr.dups0[i].wild, dom |-> tr.dups0[i].kdom]
D0(tr) == [k \in {K(tr, i) : i \in 1..Len(tr.dups0)} |-> tr.dups0[k.id].n]
C0(tr) == {K(tr, i) : i \in {j \in 1..Len(tr.dups0) : tr.dups0[j].cached}}
Cand(form) == {K(T, i) : i \in {j \in 1..Len(T.dups0) : T.dups0[j].form = form}}

Init == /\ t \in 1..Len(Doc.traces) /\ l = 1
        /\ Len(Doc.traces[t].dups0) <= MaxKeys
        /\ C!CacheInit(D0(Doc.traces[t]), C0(Doc.traces[t]))

Ev == T.steps[l]
IsEv(e) == l <= Len(T.steps) /\ Ev.e = e /\ l' = l + 1 /\ UNCHANGED t

THit  == IsEv("hit")  /\ \E k \in Cand(Ev.key) : C!Hit(k) /\ C!LeftOf(k)' = Ev.left /\ C!Evicted(k)' = Ev.evict
TMiss == IsEv("miss") /\ \E k \in Cand(Ev.key) : C!Miss(k, Ev.save)
TSave == IsEv("save") /\ \E k \in Cand(Ev.key) : C!Save(k)
(* the two shortcuts that return without storing (Cache.Shortcut):                                           *)
(*  - a "fixed-point" pattern event directly after a saving miss of the steady-state pattern itself (the     *)
(*    canonical text of the key says so; otherwise the event belongs to an unmarked child)                   *)
(*  - an "empty" event after miss, open, where the key that missed denotes a quantifier node (`quant`,       *)
(*    derived from the key text by the driver): the quantifier that missed has an empty domain               *)
SteadyText == "(!{var0}: (AX {var0}))"
AfterSavingMiss == /\ l > 1 /\ T.steps[l - 1].e = "miss" /\ T.steps[l - 1].save /\ T.steps[l - 1].key = SteadyText
                   /\ Ev.kind = "fixed-point"
TPattern == IsEv("pattern") /\ AfterSavingMiss /\ \E k \in Cand(T.steps[l - 1].key) : C!Shortcut(k)
AfterSavingMissOpen == l > 2 /\ T.steps[l - 1].e = "open" /\ T.steps[l - 2].e = "miss" /\ T.steps[l - 2].save /\ T.steps[l - 2].quant
TEmpty == IsEv("empty") /\ AfterSavingMissOpen /\ \E k \in Cand(T.steps[l - 2].key) : C!Shortcut(k)
TOpen  == IsEv("open")  /\ C!Open(Ev.var, Ev.dom)
TClose == IsEv("close") /\ C!Close(Ev.var)
TOther == /\ l <= Len(T.steps) /\ Ev.e \in {"pattern", "empty", "ret"}
          /\ (Ev.e = "pattern" => ~AfterSavingMiss) /\ (Ev.e = "empty" => ~AfterSavingMissOpen)
          /\ l' = l + 1 /\ UNCHANGED <<duplicates, cache, stack, scopes, hits, saved, savedUnder, t>>
Next == THit \/ TMiss \/ TSave \/ TPattern \/ TEmpty \/ TOpen \/ TClose \/ TOther

(* the design's invariants, in every state of every behaviour that explains a prefix of the trace *)
Inv == /\ C!CacheWithinMarked /\ C!CountersPositive /\ C!FetchBound(D0(T)) /\ C!WildKept(C0(T))
       /\ C!CachedWasSaved(C0(T)) /\ C!StackDistinct /\ C!StoredValuesPortable
(* acceptance: the whole trace was consumed, and nothing that was going to be stored is left pending *)
Accepted == l = Len(T.steps) + 1 /\ stack = <<>> /\ scopes = <<>>
Verdict == Accepted => PrintT(<<"VERDICT", T.id, <<"T">>>>)
Reached == PrintT(<<"REACHED", T.id, l>>)
=============================================================================
