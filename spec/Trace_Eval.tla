----------------------------- MODULE Trace_Eval -----------------------------
(***************************************************************************)
(* Mode C, STEP level: traces recorded through the cfg(hctl_verif) hooks   *)
(* of eval_node are compared with the behaviour of the evaluator model     *)
(* (Evaluator.tla) on the same batch: the sequence of abstract events      *)
(* (hit with remaining counter and eviction, miss with the save decision,  *)
(* save, pattern, scope open / empty / close) and the value of EVERY       *)
(* sub-formula as a full relation over (colour, state, variable copies),   *)
(* and the raw results.                                                    *)
(*                                                                         *)
(* The model is a deterministic function of the batch, so validation is    *)
(* "recorded trace = the model's trace".  A disagreement is MODEL DRIFT,   *)
(* not a property violation by itself (a benign refactoring changes        *)
(* traces): the driver reports it as a NOTE and records that the design-   *)
(* level results of MC_Evaluator are not bound to the code at that step.   *)
(* Property violations are decided on API-observable results (Trace_Sem).  *)
(***************************************************************************)
EXTENDS Evaluator, BoolNet, Json, IOUtils

Doc  == JsonDeserialize(IOEnv.CASEFILE)
N0   == Doc.net
S0   == States(N0)
W0   == 2^NVars(N0)
Valid0 == TLCEval(ValidColours(N0))
VarNames0 == {N0.vars[i] : i \in 1..NVars(N0)}
P0   == TLCEval([name \in VarNames0 |-> {s \in S0 : Bit(s, VarIdx(N0, name) - 1)}])
Succ0 == TLCEval([c \in Colours(N0) |-> TLCEval(SuccF(N0, c))])
Pred0 == TLCEval([c \in Colours(N0) |-> TLCEval([s \in S0 |-> {p \in S0 : s \in Succ0[c][p]}])])
GraphOf(k) ==
  LET sls == Slices(Colours(N0), S0, k) IN
  [St |-> S0, Cs |-> Colours(N0), k |-> k, slices |-> sls, succ |-> Succ0, pred |-> Pred0,
   unit |-> TLCEval([sl \in sls |-> IF sl[1] \in Valid0 THEN S0 ELSE {}])]
ToSet(q) == {q[j] : j \in 1..Len(q)}
B2S(b) == IF b THEN "T" ELSE "F"

(* a recorded step as the model logs it *)
StepOf(e) ==
  CASE e.e = "hit"     -> <<"hit", e.key, e.left, e.evict>>
    [] e.e = "miss"    -> <<"miss", e.key, e.save>>
    [] e.e = "save"    -> <<"save", e.key>>
    [] e.e = "pattern" -> <<"pattern", e.kind>>
    [] e.e = "open"    -> <<"open", e.var, e.dom>>
    [] e.e = "empty"   -> <<"empty", e.var>>
    [] e.e = "close"   -> <<"close", e.var>>
    [] e.e = "ret"     -> <<"ret", e.f, ToSet(e.set)>>

SameStep(ml, e) == ml[1] = e.e /\ ml = StepOf(e)     \* (kind first: events of different kinds are not comparable)

(* one recorded call of a raw multi-formula entry point *)
ModelRun(call) ==
  LET G == TLCEval(GraphOf(call.k))
      per == [l \in DOMAIN call.ctx_sets |-> [c \in Colours(N0) |-> {s \in S0 : (c * W0 + s) \in ToSet(call.ctx_sets[l])}]]
      wild == [l \in DOMAIN per |-> Lift(G, per[l])]
      E == [steady |-> IF call.api = "unsafe_ex" THEN Empty(G) ELSE SteadyOf(G), doms |-> wild, props |-> P0, logsets |-> TRUE]
  IN  [run |-> RunBatch(call.trees, G, E, wild), G |-> G]
JStep(call) ==
  LET m == ModelRun(call) IN
  /\ call.outcome = "ok"
  /\ ~m.run.ctx.panic
  /\ Len(m.run.ctx.log) = Len(call.steps)
  /\ \A i \in 1..Len(call.steps) : SameStep(m.run.ctx.log[i], call.steps[i])
  /\ \A i \in 1..Len(call.res_full) : TuplesOf(m.G, m.run.outs[i]) = ToSet(call.res_full[i])
(* index of the first step that differs (0 = none), for the drift note *)
FirstDiff(call) ==
  LET m == ModelRun(call)
      n == IF Len(m.run.ctx.log) < Len(call.steps) THEN Len(m.run.ctx.log) ELSE Len(call.steps)
      bad == {i \in 1..n : ~SameStep(m.run.ctx.log[i], call.steps[i])}
  IN IF bad = {} THEN (IF Len(m.run.ctx.log) = Len(call.steps) THEN 0 ELSE n + 1)
     ELSE CHOOSE i \in bad : \A j2 \in bad : i <= j2

VARIABLE ci
Init == ci \in 1..Len(Doc.cases)
Next == UNCHANGED ci
Verdict ==
  LET case == Doc.cases[ci]
      oks == [k \in 1..Len(case.calls) |-> JStep(case.calls[k])]
      ok == \A k \in 1..Len(oks) : oks[k]
  IN  /\ PrintT(<<"VERDICT", case.id, <<B2S(ok)>>>>)
      /\ (ok \/ PrintT(<<"DRIFT", case.id, [k \in 1..Len(case.calls) |-> IF oks[k] THEN 0 ELSE FirstDiff(case.calls[k])]>>))
=============================================================================
