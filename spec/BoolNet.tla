------------------------------ MODULE BoolNet ------------------------------
(***************************************************************************)
(* What a partially specified Boolean network MEANS.                       *)
(*                                                                         *)
(* A network is data (a record read from JSON):                            *)
(*   vars   : sequence of variable names (variable i is bit i-1 of a state)*)
(*   regs   : sequence of [src, tgt, obs, sign] (1-based variable indices; *)
(*            sign is "+", "-" or "?")                                     *)
(*   params : sequence of [name, arity] -- explicit uninterpreted functions*)
(*   fns    : per variable either an update-function AST                   *)
(*              [op |-> "const", val], [op |-> "var", i], [op |-> "not", a],*)
(*              [op |-> "and"|"or"|"xor"|"imp"|"iff", a, b],               *)
(*              [op |-> "param", p, args]                                  *)
(*            or [op |-> "implicit", regs] (unknown function of its        *)
(*            regulators, in variable order).                              *)
(*                                                                         *)
(* A COLOUR is one interpretation of every unknown function: a natural     *)
(* number whose bits are the truth-table rows of all explicit parameters   *)
(* (in parameter order) followed by all implicit functions (in variable    *)
(* order); the row of an argument vector is  sum_j arg_j * 2^(j-1).        *)
(* A STATE is a natural number, bit i-1 = value of variable i.             *)
(*                                                                         *)
(* This module is independent of the implementation: nothing here is taken *)
(* from the code under test except the *parser* that produced the record.  *)
(***************************************************************************)
EXTENDS Naturals, Sequences, FiniteSets

Bit(x, i) == (x \div (2^i)) % 2 = 1
SetBit(s, i, b) == IF Bit(s, i) = b THEN s ELSE IF b THEN s + 2^i ELSE s - 2^i

NVars(N)  == Len(N.vars)
States(N) == 0..(2^NVars(N) - 1)
VarIdx(N, name) == CHOOSE i \in 1..NVars(N) : N.vars[i] = name
IsVar(N, name)  == \E i \in 1..NVars(N) : N.vars[i] = name

(* ---- truth tables of the unknown functions, in the canonical colour order ---- *)
ImplicitVars(N) == SelectSeq([v \in 1..NVars(N) |-> v], LAMBDA v : N.fns[v].op = "implicit")
Tables(N) ==
    [i \in 1..Len(N.params) |-> [kind |-> "p", id |-> i, arity |-> N.params[i].arity]]
    \o [j \in 1..Len(ImplicitVars(N)) |->
          [kind |-> "v", id |-> ImplicitVars(N)[j], arity |-> Len(N.fns[ImplicitVars(N)[j]].regs)]]

RECURSIVE SumRows(_, _)
SumRows(T, j) == IF j = 0 THEN 0 ELSE SumRows(T, j-1) + 2^(T[j].arity)
Offset(N, j)  == SumRows(Tables(N), j-1)
NBits(N)      == SumRows(Tables(N), Len(Tables(N)))
Colours(N)    == 0..(2^NBits(N) - 1)
TableIdx(N, kind, id) ==
    CHOOSE j \in 1..Len(Tables(N)) : Tables(N)[j].kind = kind /\ Tables(N)[j].id = id
Row(N, c, kind, id, row) == Bit(c, Offset(N, TableIdx(N, kind, id)) + row)

RECURSIVE RowOf(_, _)
RowOf(args, j) == IF j = 0 THEN 0 ELSE RowOf(args, j-1) + (IF args[j] THEN 2^(j-1) ELSE 0)

(* ---- value of the update function of variable v in state s under colour c ---- *)
RECURSIVE EvalFn(_, _, _, _)
EvalFn(N, c, f, s) ==
  CASE f.op = "const" -> f.val
    [] f.op = "var"   -> Bit(s, f.i - 1)
    [] f.op = "not"   -> ~EvalFn(N, c, f.a, s)
    [] f.op = "and"   -> EvalFn(N, c, f.a, s) /\ EvalFn(N, c, f.b, s)
    [] f.op = "or"    -> EvalFn(N, c, f.a, s) \/ EvalFn(N, c, f.b, s)
    [] f.op = "xor"   -> EvalFn(N, c, f.a, s) # EvalFn(N, c, f.b, s)
    [] f.op = "imp"   -> EvalFn(N, c, f.a, s) => EvalFn(N, c, f.b, s)
    [] f.op = "iff"   -> EvalFn(N, c, f.a, s) = EvalFn(N, c, f.b, s)
    [] f.op = "param" -> LET args == [j \in 1..Len(f.args) |-> EvalFn(N, c, f.args[j], s)]
                         IN  Row(N, c, "p", f.p, RowOf(args, Len(args)))

Update(N, c, v, s) ==
  IF N.fns[v].op = "implicit"
  THEN LET regs == N.fns[v].regs
           args == [j \in 1..Len(regs) |-> Bit(s, regs[j] - 1)]
       IN  Row(N, c, "v", v, RowOf(args, Len(args)))
  ELSE EvalFn(N, c, N.fns[v], s)

(* ---- which colours satisfy the regulation constraints ---- *)
(* Zero-arity explicit parameters are "inputs": a regulation must be        *)
(* observable for SOME value of them and monotonous for ALL values.         *)
InputBits(N) == {Offset(N, j) : j \in {j \in 1..Len(N.params) : N.params[j].arity = 0}}
InputVariants(N, c) ==
    {d \in Colours(N) : \A b \in 0..(NBits(N)-1) : b \notin InputBits(N) => Bit(c, b) = Bit(d, b)}
Observable(N, c, r) == \E s \in States(N) :
    Update(N, c, r.tgt, SetBit(s, r.src-1, TRUE)) # Update(N, c, r.tgt, SetBit(s, r.src-1, FALSE))
Activation(N, c, r) == ~\E s \in States(N) :
    Update(N, c, r.tgt, SetBit(s, r.src-1, FALSE)) /\ ~Update(N, c, r.tgt, SetBit(s, r.src-1, TRUE))
Inhibition(N, c, r) == ~\E s \in States(N) :
    ~Update(N, c, r.tgt, SetBit(s, r.src-1, FALSE)) /\ Update(N, c, r.tgt, SetBit(s, r.src-1, TRUE))
RegOK(N, c, r) ==
  /\ (r.obs        => \E d \in InputVariants(N, c) : Observable(N, d, r))
  /\ (r.sign = "+" => \A d \in InputVariants(N, c) : Activation(N, d, r))
  /\ (r.sign = "-" => \A d \in InputVariants(N, c) : Inhibition(N, d, r))
ValidColour(N, c) == \A j \in 1..Len(N.regs) : RegOK(N, c, N.regs[j])
ValidColours(N)   == {c \in Colours(N) : ValidColour(N, c)}

(* ---- the asynchronous transition system of colour c ---- *)
Succ(N, c, s) ==
    {SetBit(s, v-1, Update(N, c, v, s)) : v \in {v \in 1..NVars(N) : Update(N, c, v, s) # Bit(s, v-1)}}
(* a state without outgoing transitions carries a self-loop *)
NextF(N, c) == [s \in States(N) |-> LET x == Succ(N, c, s) IN IF x = {} THEN {s} ELSE x]
SuccF(N, c) == [s \in States(N) |-> Succ(N, c, s)]
Steady(N, c) == {s \in States(N) : Succ(N, c, s) = {}}

(* ---- graph-theoretic notions over a next-state function K : S -> SUBSET S ---- *)
(* (defined by closure, not through CTL operators, so that they can serve as *)
(* an independent oracle for EF / AG / EU and the attractor pattern)         *)
RECURSIVE BwdClosure(_, _, _)
BwdClosure(K, W, Z) ==   \* states of W that can reach Z through W
    LET Z2 == Z \cup {s \in W : K[s] \cap Z # {}} IN IF Z2 = Z THEN Z ELSE BwdClosure(K, W, Z2)
ReachBwd(K, S, T)           == BwdClosure(K, S, T)
ReachBwdWithin(K, S, A, T)  == BwdClosure(K, A, T)
RECURSIVE TrapShrink(_, _)
TrapShrink(K, Z) ==      \* largest forward-closed subset of Z
    LET Z2 == {s \in Z : K[s] \subseteq Z} IN IF Z2 = Z THEN Z ELSE TrapShrink(K, Z2)
TrapFwd(K, T) == TrapShrink(K, T)
RECURSIVE FwdClosure(_, _)
FwdClosure(K, Z) ==
    LET Z2 == Z \cup UNION {K[s] : s \in Z} IN IF Z2 = Z THEN Z ELSE FwdClosure(K, Z2)
ReachFwd(K, s) == FwdClosure(K, {s})
(* s is in an attractor iff everything reachable from s can reach s back *)
Attractor(K, S) == {s \in S : \A t \in ReachFwd(K, s) : s \in ReachFwd(K, t)}
=============================================================================
