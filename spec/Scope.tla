-------------------------------- MODULE Scope --------------------------------
(***************************************************************************)
(* Binding, renaming, canonical forms and duplicates -- the notions behind *)
(* C07 and C09, defined independently of the implementation's algorithms:  *)
(*   DeBruijn     alpha-equivalence by nameless binders                    *)
(*   DepthNamed   "every quantifier is named by its nesting depth"         *)
(*   AlphaEqOpen  equality of OPEN sub-formulae up to a consistent         *)
(*                renaming of state variables (brute force over bijections *)
(*                of the free variables)                                   *)
(*   Occurrences  every sub-formula occurrence of a list of trees together *)
(*                with the domains of the enclosing quantifiers            *)
(***************************************************************************)
EXTENDS Hctl, Syntax

RECURSIVE PosIn(_, _, _)
PosIn(env, name, i) == IF i > Len(env) THEN 0 ELSE IF env[i] = name THEN i ELSE PosIn(env, name, i + 1)

(* nameless form; env = bound names, innermost first; free variables are mapped through pi *)
Ref(env, name, pi) ==
  LET p == PosIn(env, name, 1) IN
    IF p > 0 THEN "#" \o ToString(p) ELSE IF name \in DOMAIN pi THEN pi[name] ELSE name
RECURSIVE DBmap(_, _, _)
DBmap(t, env, pi) ==
  CASE t.op \in {"true", "false", "prop", "wild"} -> t
    [] t.op = "var"  -> [op |-> "var", v |-> Ref(env, t.v, pi)]
    [] IsUnary(t)    -> [op |-> t.op, a |-> DBmap(t.a, env, pi)]
    [] IsBinary(t)   -> [op |-> t.op, a |-> DBmap(t.a, env, pi), b |-> DBmap(t.b, env, pi)]
    [] t.op = "jump" -> [op |-> "jump", v |-> Ref(env, t.v, pi), dom |-> t.dom, a |-> DBmap(t.a, env, pi)]
    [] t.op \in Quantifiers -> [op |-> t.op, v |-> "", dom |-> t.dom, a |-> DBmap(t.a, <<t.v>> \o env, pi)]
NoMap == [x \in {} |-> ""]
DeBruijn(t) == DBmap(t, <<>>, NoMap)
AlphaEq(a, b) == DeBruijn(a) = DeBruijn(b)

(* depth-based names x, xx, xxx, ... *)
RECURSIVE XName(_)
XName(d) == IF d = 0 THEN "" ELSE "x" \o XName(d - 1)
RECURSIVE DepthNamed(_, _)
DepthNamed(t, d) ==     \* d = number of enclosing quantifiers
  CASE t.op \in {"true", "false", "prop", "wild", "var"} -> TRUE
    [] IsUnary(t)    -> DepthNamed(t.a, d)
    [] IsBinary(t)   -> DepthNamed(t.a, d) /\ DepthNamed(t.b, d)
    [] t.op = "jump" -> DepthNamed(t.a, d)
    [] t.op \in Quantifiers -> t.v = XName(d + 1) /\ DepthNamed(t.a, d + 1)
RECURSIVE QuantNames(_)
QuantNames(t) ==
  CASE t.op \in {"true", "false", "prop", "wild", "var"} -> {}
    [] IsUnary(t)    -> QuantNames(t.a)
    [] IsBinary(t)   -> QuantNames(t.a) \cup QuantNames(t.b)
    [] t.op = "jump" -> QuantNames(t.a)
    [] t.op \in Quantifiers -> {t.v} \cup QuantNames(t.a)
RECURSIVE WildProps(_), DomLabels(_)
WildProps(t) ==
  CASE t.op = "wild" -> {t.name}
    [] t.op \in {"true", "false", "prop", "var"} -> {}
    [] IsBinary(t) -> WildProps(t.a) \cup WildProps(t.b)
    [] OTHER -> WildProps(t.a)
DomLabels(t) ==
  CASE t.op \in {"true", "false", "prop", "var", "wild"} -> {}
    [] IsBinary(t) -> DomLabels(t.a) \cup DomLabels(t.b)
    [] IsHybrid(t) -> DomLabels(t.a) \cup (IF t.dom = "" THEN {} ELSE {t.dom})
    [] OTHER -> DomLabels(t.a)

(* the specification's own renamer (what preprocessing is meant to compute) *)
RECURSIVE RenameAt(_, _, _)
RenameAt(t, m, d) ==    \* m : old name -> new name for the variables in scope
  CASE t.op \in {"true", "false", "prop", "wild"} -> t
    [] t.op = "var"  -> [op |-> "var", v |-> m[t.v]]
    [] IsUnary(t)    -> [op |-> t.op, a |-> RenameAt(t.a, m, d)]
    [] IsBinary(t)   -> [op |-> t.op, a |-> RenameAt(t.a, m, d), b |-> RenameAt(t.b, m, d)]
    [] t.op = "jump" -> [op |-> "jump", v |-> m[t.v], dom |-> t.dom, a |-> RenameAt(t.a, m, d)]
    [] t.op \in Quantifiers ->
         [op |-> t.op, v |-> XName(d + 1), dom |-> t.dom,
          a |-> RenameAt(t.a, (t.v :> XName(d + 1)) @@ m, d + 1)]
Rename(t) == RenameAt(t, NoMap, 0)

(* equality up to a consistent renaming of the free state variables *)
Bijections(A, B2_) == {f \in [A -> B2_] : \A x, y \in A : x # y => f[x] # f[y]}
AlphaEqOpen(a, b) ==
  LET fa == FreeVars(a) fb == FreeVars(b) IN
    /\ Cardinality(fa) = Cardinality(fb)
    /\ \E pi \in Bijections(fa, fb) : DBmap(a, <<>>, pi) = DeBruijn(b)

(* all sub-formula occurrences with the domains of the enclosing quantifiers *)
RECURSIVE OccOf(_, _)
OccOf(t, env) ==       \* env : variable -> domain label ("" = none); result: sequence of [t, env]
  <<[t |-> t, env |-> env]>> \o
  ( CASE t.op \in {"true", "false", "prop", "wild", "var"} -> <<>>
      [] IsUnary(t)    -> OccOf(t.a, env)
      [] IsBinary(t)   -> OccOf(t.a, env) \o OccOf(t.b, env)
      [] t.op = "jump" -> OccOf(t.a, env)
      [] t.op \in Quantifiers -> OccOf(t.a, (t.v :> t.dom) @@ env) )
RECURSIVE OccAll(_, _)
OccAll(trees, i) == IF i > Len(trees) THEN <<>> ELSE OccOf(trees[i], NoMap) \o OccAll(trees, i + 1)

(* o is an occurrence of the formula c (an AST over canonical names) with domain map D *)
IsOccurrenceOf(o, c, D) ==
  LET fo == FreeVars(o.t) fc == FreeVars(c) IN
    /\ Cardinality(fo) = Cardinality(fc)
    /\ \E pi \in Bijections(fo, fc) :
         /\ DBmap(o.t, <<>>, pi) = DeBruijn(c)
         /\ \A v \in fo : o.env[v] = (IF pi[v] \in DOMAIN D THEN D[pi[v]] ELSE "")
=============================================================================
