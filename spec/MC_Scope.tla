------------------------------- MODULE MC_Scope -------------------------------
(***************************************************************************)
(* Mode A for preprocessing and canonisation (C07, C09), without any       *)
(* implementation code:                                                    *)
(*  - the specified renamer (Scope.Rename) is alpha-equivalence preserving,*)
(*    depth-naming, minimal and idempotent on EVERY well-scoped tree up to *)
(*    a size bound over the colliding names x, xx;                         *)
(*  - the canonisation ALGORITHM of the code (Evaluator.Canon: one pass in *)
(*    text order with a single unscoped map) identifies exactly the        *)
(*    sub-formulae that are equal up to a consistent renaming              *)
(*    (Scope.AlphaEqOpen) on EVERY pair of sub-formulae of preprocessed    *)
(*    trees up to the bound, and is idempotent.                            *)
(***************************************************************************)
EXTENDS Scope, Evaluator, IOUtils

EnvNat(name, default) == IF name \in DOMAIN IOEnv THEN (CHOOSE x \in 0..64 : ToString(x) = IOEnv[name]) ELSE default
MaxSize == EnvNat("SCOPE_N", 3)
Atoms == {[op |-> "prop", name |-> "p"], [op |-> "var", v |-> "x"], [op |-> "var", v |-> "xx"]}
Wrap(t) == {[op |-> "AX", a |-> t]}
           \cup {[op |-> q, v |-> v, dom |-> d, a |-> t] : q \in {"bind", "exists"}, v \in {"x", "xx"}, d \in {"", "d"}}
           \cup {[op |-> "jump", v |-> v, dom |-> "", a |-> t] : v \in {"x", "xx"}}
RECURSIVE TreesOfSize(_)
TreesOfSize(n) ==
  IF n = 1 THEN Atoms
  ELSE UNION {Wrap(t) : t \in TreesOfSize(n - 1)}
       \cup UNION {{[op |-> "and", a |-> l, b |-> r] : l \in TreesOfSize(k), r \in TreesOfSize(n - 1 - k)} : k \in 1..(n - 2)}
AllTrees == UNION {TreesOfSize(n) : n \in 1..MaxSize}
RECURSIVE SubsOf(_)
SubsOf(t) == {t} \cup (CASE t.op \in {"prop", "var", "true", "false", "wild"} -> {}
                         [] IsBinary(t) -> SubsOf(t.a) \cup SubsOf(t.b)
                         [] OTHER -> SubsOf(t.a))
ClosedOK == {t \in AllTrees : WellScoped(t, {})}
PreSubs == UNION {SubsOf(Rename(t)) : t \in ClosedOK}       \* sub-formulae of preprocessed trees

VARIABLES a, b
Init == a \in AllTrees /\ b \in PreSubs \cup {[op |-> "prop", name |-> "none"]}
Next == UNCHANGED <<a, b>>
(* C07, on the specification's own renamer *)
RenameOK ==
  WellScoped(a, {}) =>
    LET r == Rename(a) IN
      /\ AlphaEq(r, a) /\ DepthNamed(r, 0) /\ Cardinality(QuantNames(r)) = Depth(a)
      /\ Rename(r) = r /\ WellScoped(r, {})
(* C09, on the code's canonisation algorithm; a ranges over PreSubs as well when it is in it *)
CanonOK ==
  (a \in PreSubs /\ b \in PreSubs) =>
    /\ (Canon(a).text = Canon(b).text) <=> AlphaEqOpen(a, b)
    \* canonising the canonical form changes nothing; free variables are renamed injectively
    /\ LET w == CanonWalk(a, [map |-> EmptyMap, n |-> 0]) IN
         /\ Canon(w.t).text = Canon(a).text
         /\ \A x, y \in FreeVars(a) : x # y => w.st.map[x] # w.st.map[y]
=============================================================================
