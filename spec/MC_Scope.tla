------------------------------- MODULE MC_Scope -------------------------------
(***************************************************************************)
(* Mode A for preprocessing and canonisation (C07, C09), without any       *)
(* implementation code:                                                    *)
(*  - the specified renamer (Scope.Rename) is alpha-equivalence preserving,*)
(*    depth-naming, minimal and idempotent on EVERY well-scoped tree up to *)
(*    a size bound over the colliding names x, xx, and keeps the           *)
(*    denotation (Hctl.Sat) on a fixed Kripke structure;                   *)
(*  - the canonisation ALGORITHM of the code (Evaluator.Canon: one pass in *)
(*    text order with a single unscoped map) identifies exactly the        *)
(*    sub-formulae that are equal up to a consistent renaming              *)
(*    (Scope.AlphaEqOpen) on EVERY pair of sub-formulae of preprocessed    *)
(*    trees up to the bound, and is idempotent.                            *)
(***************************************************************************)
EXTENDS Scope, Evaluator, IOUtils

EnvNat(name, default) == IF name \in DOMAIN IOEnv THEN (CHOOSE x \in 0..64 : ToString(x) = IOEnv[name]) ELSE default
MaxSize == EnvNat("SCOPE_N", 3)
Atoms == {[op |-> "prop", name |-> "p"], [op |-> "var", v |-> "x"], [op |-> "var", v |-> "xx"]}
Wrap(t) == {[op |-> "AX", a |-> t]}
           \cup {[op |-> q, v |-> v, dom |-> d, a |-> t] : q \in {"bind", "exists"}, v \in {"x", "xx"}, d \in {"", "d"}}
           \cup {[op |-> "jump", v |-> v, dom |-> "", a |-> t] : v \in {"x", "xx"}}
RECURSIVE TreesOfSize(_)
TreesOfSize(n) ==
  IF n = 1 THEN Atoms
  ELSE UNION {Wrap(t) : t \in TreesOfSize(n - 1)}
       \cup UNION {{[op |-> "and", a |-> l, b |-> r] : l \in TreesOfSize(k), r \in TreesOfSize(n - 1 - k)} : k \in 1..(n - 2)}
AllTrees == UNION {TreesOfSize(n) : n \in 1..MaxSize}
RECURSIVE SubsOf(_)
SubsOf(t) == {t} \cup (CASE t.op \in {"prop", "var", "true", "false", "wild"} -> {}
                         [] IsBinary(t) -> SubsOf(t.a) \cup SubsOf(t.b)
                         [] OTHER -> SubsOf(t.a))
ClosedOK == {t \in AllTrees : WellScoped(t, {})}
PreSubs == UNION {SubsOf(Rename(t)) : t \in ClosedOK}       \* sub-formulae of preprocessed trees

VARIABLES a, b
Init == a \in AllTrees /\ b \in PreSubs \cup ClosedOK \cup {[op |-> "prop", name |-> "none"]}
Next == UNCHANGED <<a, b>>
(* C07, on the specification's own renamer *)
RenameOK ==
  WellScoped(a, {}) =>
    LET r == Rename(a) IN
      /\ AlphaEq(r, a) /\ DepthNamed(r, 0) /\ Cardinality(QuantNames(r)) = Depth(a)
      /\ Rename(r) = r /\ WellScoped(r, {})
(* C07 "without changing meaning", at the level of the reference semantics: on a fixed three-state *)
(* Kripke structure (a cycle with a branch and a self-loop) the renamed tree denotes the same set    *)
K3 == (0 :> {1, 2}) @@ (1 :> {0}) @@ (2 :> {2})
P3 == [name \in {"p"} |-> {0, 2}]
D3 == [l \in {"d"} |-> {0, 1}]
RenameKeepsMeaning ==
  WellScoped(a, {}) =>
    Sat(K3, {0, 1, 2}, P3, D3, Rename(a), <<>>) = Sat(K3, {0, 1, 2}, P3, D3, a, <<>>)
(* C09, on the code's canonisation algorithm; a ranges over PreSubs as well when it is in it *)
CanonOK ==
  (a \in PreSubs /\ b \in PreSubs) =>
    /\ (Canon(a).text = Canon(b).text) <=> AlphaEqOpen(a, b)
    \* canonising the canonical form changes nothing; free variables are renamed injectively
    /\ LET w == CanonWalk(a, [map |-> EmptyMap, n |-> 0]) IN
         /\ Canon(w.t).text = Canon(a).text
         /\ \A x, y \in FreeVars(a) : x # y => w.st.map[x] # w.st.map[y]
(* C09, second half, on the code's duplicate marker (Evaluator.MarkDuplicates): for every pair of   *)
(* closed trees (a, b both well-scoped), every marked duplicate with counter n has at least n + 1    *)
(* occurrences that are equal to it up to renaming AND have identical domains of their free          *)
(* variables (Scope.IsOccurrenceOf -- the independent notion)                                        *)
DupsOK ==
  (WellScoped(a, {}) /\ b \in ClosedOK) =>
    LET trees == <<Rename(a), Rename(b)>>
        dups == MarkDuplicates(trees)
        occ == OccAll(trees, 1)
    IN \A key \in DOMAIN dups :
         LET rep == CHOOSE i \in 1..Len(occ) : KeyOf(Canon(occ[i].t), occ[i].env) = key
             c == CanonWalk(occ[rep].t, [map |-> EmptyMap, n |-> 0]).t
         IN  /\ dups[key] >= 1
             /\ Cardinality({i \in 1..Len(occ) : IsOccurrenceOf(occ[i], c, key.d)}) >= dups[key] + 1
=============================================================================
