INIT Init
NEXT Next
INVARIANT Agree
CHECK_DEADLOCK FALSE
