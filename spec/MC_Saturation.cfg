INIT Init
NEXT Next
INVARIANT Same
CHECK_DEADLOCK FALSE
