-------------------------------- MODULE MC_Lex --------------------------------
(***************************************************************************)
(* Mode A for the tokenizer: the character-level ALGORITHM of tokenizer.rs *)
(* (Syntax.ImplLex) against the word-based lexical grammar (Syntax.Lex) on *)
(* EVERY string up to a length bound over an alphabet that contains a      *)
(* representative of every character the algorithm branches on, in both    *)
(* languages (plain / extended).                                           *)
(***************************************************************************)
EXTENDS Syntax, IOUtils, Json
N(c) == [c |-> c, k |-> "n"]
O(c) == [c |-> c, k |-> "o"]
AlphaSeq == <<N("a"), N("E"), N("A"), N("X"), N("U"), N("3"), N("V"), N("i"), N("n"), N("_"),
              [c |-> " ", k |-> "s"],
              O("{"), O("}"), O("("), O(")"), O("~"), O("&"), O("="), O(">"), O("<"), O("!"), O("@"), O(":"), O("%"), O("\\"), O("#")>>
Alphabet == {AlphaSeq[i] : i \in 1..Len(AlphaSeq)}
EnvNat(name, default) == IF name \in DOMAIN IOEnv THEN (CHOOSE x \in 0..64 : ToString(x) = IOEnv[name]) ELSE default
MaxLen == EnvNat("LEX_L", 3)
Parts  == EnvNat("PARTS", 1)
Part   == EnvNat("PART", 0)
Idx(ch) == CHOOSE i \in 1..Len(AlphaSeq) : AlphaSeq[i] = ch
(* optionally, longer strings from a file (hybrid prefixes with domains need a dozen characters) *)
Extra == IF "STRFILE" \in DOMAIN IOEnv THEN LET q == JsonDeserialize(IOEnv.STRFILE) IN {q[j] : j \in 1..Len(q)} ELSE {}
VARIABLE cs
Init == cs \in Extra \cup UNION {{s \in [1..n -> Alphabet] : n = 0 \/ (Idx(s[1]) + (IF n > 1 THEN Idx(s[2]) ELSE 0)) % Parts = Part} : n \in 0..MaxLen}
Next == UNCHANGED cs
Agree == ImplLex(cs, FALSE) = Lex(cs, FALSE) /\ ImplLex(cs, TRUE) = Lex(cs, TRUE)
=============================================================================
