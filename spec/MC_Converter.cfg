INIT Init
NEXT Next
INVARIANT Complete
CHECK_DEADLOCK FALSE
