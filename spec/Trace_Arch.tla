----------------------------- MODULE Trace_Arch -----------------------------
(***************************************************************************)
(* C16: a result archive is a map  entry name -> content.  Events recorded *)
(* by `hctl-conf arch`: the label -> set map handed to                     *)
(* build_result_archive (explicit sets), the formula list and the model;   *)
(* the archive read back the documented way (entry names listed from the   *)
(* zip directory, model.aeon re-parsed, graph rebuilt with the same number *)
(* of spare variable sets, load_bdd_bundle); and the result of one         *)
(* extended formula evaluated with the in-memory and with the reloaded     *)
(* sets as wild-card context.                                              *)
(***************************************************************************)
EXTENDS BoolNet, TLC, Json, IOUtils

Doc == JsonDeserialize(IOEnv.CASEFILE)
ToSet(q) == {q[j] : j \in 1..Len(q)}
B2S(b) == IF b THEN "T" ELSE "F"

(* the archived model denotes the same network: variables, regulations, parameters, and update  *)
(* functions that agree in every state under every interpretation (printing re-associates)     *)
SameNetwork(A, B) ==
  /\ A.vars = B.vars /\ A.regs = B.regs /\ A.params = B.params
  /\ \A v \in 1..NVars(A) : (A.fns[v].op = "implicit") = (B.fns[v].op = "implicit")
  /\ \A v \in 1..NVars(A) : A.fns[v].op = "implicit" => A.fns[v] = B.fns[v]
  /\ \A c \in Colours(A) : \A s \in States(A) : \A v \in 1..NVars(A) : Update(A, c, v, s) = Update(B, c, v, s)

(* written: the abstract archive;  back: what reading returned *)
RoundTrip(e) ==
  /\ e.outcome = "ok"
  \* one entry per result, together with the model and the formula list
  /\ ToSet(e.back.entries) = {x \o ".bdd" : x \in DOMAIN e.written} \cup {"model.aeon", "formulae.txt"}
  /\ Len(e.back.entries) = Cardinality(ToSet(e.back.entries))
  \* under the same labels, sets equal to the ones written, free of auxiliary variables
  /\ DOMAIN e.back.sets = DOMAIN e.written
  /\ \A x \in DOMAIN e.written : ToSet(e.back.sets[x]) = ToSet(e.written[x]) /\ ~e.back.aux[x]
  \* the formula list, line by line, and the model
  /\ e.back.formulae = e.formulae
  /\ SameNetwork(e.net_in, e.back.net)
  \* reloaded sets have the same effect as wild-card context
  /\ ToSet(e.probe_reloaded) = ToSet(e.probe_mem)
  \* the archive without results holds exactly the model and the formula list
  /\ ToSet(e.initial.entries) = {"model.aeon", "formulae.txt"}
  /\ e.initial.formulae = e.formulae /\ SameNetwork(e.net_in, e.initial.net)

(* the same on a network too large for explicit sets: the harness logs BDD-level facts only *)
RoundTripBig(e) ==
  /\ e.outcome = "ok"
  /\ ToSet(e.entries) = {x \o ".bdd" : x \in ToSet(e.labels)} \cup {"model.aeon", "formulae.txt"}
  /\ ToSet(e.loaded_labels) = ToSet(e.labels)
  /\ \A x \in ToSet(e.labels) : e.big_equal[x]
  /\ e.back_formulae = e.formulae
  /\ e.probe_equal

(* an archive written by the library's driver analyse_formulae: one entry per line of the archived formula   *)
(* list, ENTRY i IS THE RESULT OF LINE i (computed through the API on its own), the list in the given order  *)
LineName(i) == "formula-" \o ToString(i - 1)
LinesMatch(e) ==
  /\ e.outcome = "ok"
  /\ ToSet(e.back.entries) = {LineName(i) \o ".bdd" : i \in 1..Len(e.formulae)} \cup {"model.aeon", "formulae.txt"}
  /\ DOMAIN e.back.sets = {LineName(i) : i \in 1..Len(e.formulae)}
  /\ \A i \in 1..Len(e.formulae) : ToSet(e.back.sets[LineName(i)]) = ToSet(e.lines_lib[i]) /\ ~e.back.aux[LineName(i)]
  /\ e.back.formulae = e.formulae
  /\ SameNetwork(e.net_in, e.back.net)

VARIABLE ei
Init == ei \in 1..Len(Doc.events)
Next == UNCHANGED ei
Verdict == LET e == Doc.events[ei] IN
             PrintT(<<"VERDICT", e.id, <<B2S(IF "big" \in DOMAIN e /\ e.big THEN RoundTripBig(e)
                                             ELSE IF "via_analyse" \in DOMAIN e /\ e.via_analyse THEN LinesMatch(e)
                                             ELSE RoundTrip(e))>>>>)
=============================================================================
