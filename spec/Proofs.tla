------------------------------- MODULE Proofs -------------------------------
(***************************************************************************)
(* Machine-checked (TLAPS) proofs of the next-step dualities and of the    *)
(* one-step unfolding facts that the fixed-point laws of Laws.tla rest on, *)
(* for ARBITRARY state sets S and next-state functions K -- no bound.      *)
(* The definitions are those of Hctl.tla (EXs, AXs), restated here so that *)
(* the module stands alone for tlapm.                                      *)
(***************************************************************************)
EXTENDS TLAPS, Naturals

EXs(K, S, X) == {s \in S : K[s] \cap X # {}}
AXs(K, S, X) == {s \in S : K[s] \subseteq X}

THEOREM AXDual ==
  ASSUME NEW S, NEW K \in [S -> SUBSET S], NEW X \in SUBSET S
  PROVE  AXs(K, S, X) = S \ EXs(K, S, S \ X)
BY DEF AXs, EXs

THEOREM EXDual ==
  ASSUME NEW S, NEW K \in [S -> SUBSET S], NEW X \in SUBSET S
  PROVE  EXs(K, S, X) = S \ AXs(K, S, S \ X)
BY DEF AXs, EXs

THEOREM EXMonotone ==
  ASSUME NEW S, NEW K \in [S -> SUBSET S], NEW X \in SUBSET S, NEW Y \in SUBSET S, X \subseteq Y
  PROVE  EXs(K, S, X) \subseteq EXs(K, S, Y)
BY DEF EXs

THEOREM AXMonotone ==
  ASSUME NEW S, NEW K \in [S -> SUBSET S], NEW X \in SUBSET S, NEW Y \in SUBSET S, X \subseteq Y
  PROVE  AXs(K, S, X) \subseteq AXs(K, S, Y)
BY DEF AXs

(* on a state whose only successor is itself (a steady state with its self-loop), EX and AX are the identity *)
THEOREM SelfLoop ==
  ASSUME NEW S, NEW K \in [S -> SUBSET S], NEW X \in SUBSET S, NEW s \in S, K[s] = {s}
  PROVE  /\ (s \in EXs(K, S, X)) <=> (s \in X)
         /\ (s \in AXs(K, S, X)) <=> (s \in X)
BY DEF AXs, EXs

(* a post-fixed point of Z |-> T \cup (A \cap EX Z) that contains T: the unfolding step of EU *)
THEOREM EUUnfoldStep ==
  ASSUME NEW S, NEW K \in [S -> SUBSET S], NEW A \in SUBSET S, NEW T \in SUBSET S, NEW Z \in SUBSET S,
         Z = T \cup (A \cap EXs(K, S, Z))
  PROVE  /\ T \subseteq Z
         /\ A \cap EXs(K, S, T) \subseteq Z
BY DEF EXs

(* total structures: AX implies EX *)
THEOREM AXImpliesEX ==
  ASSUME NEW S, NEW K \in [S -> SUBSET S], NEW X \in SUBSET S, \A s \in S : K[s] # {}
  PROVE  AXs(K, S, X) \subseteq EXs(K, S, X)
BY DEF AXs, EXs

(* On a total structure nothing satisfies AX {}: this is why the loop of eval_au, which returns {} for  *)
(* an empty second argument without iterating (Rel.AU "as written"), still computes the least fixed     *)
(* point in standard evaluation, where every steady state carries its self-loop.                        *)
THEOREM AXEmptyOnTotal ==
  ASSUME NEW S, NEW K \in [S -> SUBSET S], \A s \in S : K[s] # {}
  PROVE  AXs(K, S, {}) = {}
BY DEF AXs

(* ... and so {} is a fixed point of Z |-> T \cup (A \cap AX Z) for T = {} *)
THEOREM AUEmptyFixedPoint ==
  ASSUME NEW S, NEW K \in [S -> SUBSET S], NEW A \in SUBSET S, \A s \in S : K[s] # {}
  PROVE  {} \cup (A \cap AXs(K, S, {})) = {}
BY DEF AXs

(* without the self-loops (the self-loop-free variant) the dead ends satisfy AX of anything *)
THEOREM DeadEndsSatisfyAX ==
  ASSUME NEW S, NEW K \in [S -> SUBSET S], NEW X \in SUBSET S, NEW s \in S, K[s] = {}
  PROVE  s \in AXs(K, S, X) /\ s \notin EXs(K, S, X)
BY DEF AXs, EXs

(* a fixed point of Z |-> A \cap EX Z lies inside A and inside EX of itself: the unfolding step of EG *)
THEOREM EGUnfoldStep ==
  ASSUME NEW S, NEW K \in [S -> SUBSET S], NEW A \in SUBSET S, NEW Z \in SUBSET S, Z = A \cap EXs(K, S, Z)
  PROVE  Z \subseteq A /\ Z \subseteq EXs(K, S, A)
BY DEF EXs

(* binder and existential quantifier: the states bound to themselves are among the states for which some *)
(* value of the variable works (the bind-projects-state mutant of the campaign is therefore an            *)
(* over-approximation, not an arbitrary change)                                                           *)
THEOREM BindInExists ==
  ASSUME NEW S, NEW Phi \in [S -> SUBSET S]
  PROVE  {s \in S : s \in Phi[s]} \subseteq UNION {Phi[v] : v \in S}
OBVIOUS

(* The save rule of the cache (Cache.SaveRule, restated over the domains of the open scopes): if every open  *)
(* restricted scope is THE scope of the key's own variable, then the set of restricted domains under which   *)
(* the value is computed is contained in {that domain} - the step on which Cache.StoredValuesPortable rests. *)
THEOREM SaveRulePortable ==
  ASSUME NEW n \in Nat, NEW dom \in [1..n -> STRING], NEW kd \in STRING,
         \A i \in 1..n : dom[i] # "" => (dom[i] = kd /\ \A j \in 1..n : dom[j] # "" => j = i)
  PROVE  {dom[j] : j \in {i \in 1..n : dom[i] # ""}} \subseteq {kd}
OBVIOUS

(* ---- the three README equivalences for quantifiers with a domain (C02), semantically ---- *)
(* Phi[v] is the set of states satisfying the body when the variable has the value v; A is the  *)
(* domain.  Jump(v) is "the body holds in the state named by the variable".                     *)
JumpSet(S, Phi, v) == IF v \in Phi[v] THEN S ELSE {}

THEOREM DomBind ==      \* !{x} in %A%: phi  =  !{x}: %A% & phi
  ASSUME NEW S, NEW A \in SUBSET S, NEW Phi \in [S -> SUBSET S]
  PROVE  {s \in A : s \in Phi[s]} = {s \in S : s \in A \cap Phi[s]}
OBVIOUS

THEOREM DomExists ==    \* 3{x} in %A%: @{x}: phi  =  3{x}: @{x}: %A% & phi
  ASSUME NEW S, NEW A \in SUBSET S, NEW Phi \in [S -> SUBSET S]
  PROVE  UNION {JumpSet(S, Phi, v) : v \in A}
         = UNION {JumpSet(S, [w \in S |-> A \cap Phi[w]], v) : v \in S}
BY DEF JumpSet

THEOREM DomForall ==    \* V{x} in %A%: @{x}: phi  =  V{x}: @{x}: %A% => phi
  ASSUME NEW S, NEW A \in SUBSET S, NEW Phi \in [S -> SUBSET S]
  PROVE  {s \in S : \A v \in A : s \in JumpSet(S, Phi, v)}
         = {s \in S : \A v \in S : s \in JumpSet(S, [w \in S |-> (S \ A) \cup Phi[w]], v)}
BY DEF JumpSet

(* ---- the next-step and hybrid laws added to Laws.tla (dist_*, EX_true, AX_false, bind_jump, exists_var, ---- *)
(* ---- forall_imp, dom_bind_leaf, dom_exists_var, dom_exists_and, dom_forall_imp), for arbitrary sets     ---- *)
THEOREM EXDistributesOverUnion ==
  ASSUME NEW S, NEW K \in [S -> SUBSET S], NEW X \in SUBSET S, NEW Y \in SUBSET S
  PROVE  EXs(K, S, X \cup Y) = EXs(K, S, X) \cup EXs(K, S, Y)
BY DEF EXs

THEOREM AXDistributesOverIntersection ==
  ASSUME NEW S, NEW K \in [S -> SUBSET S], NEW X \in SUBSET S, NEW Y \in SUBSET S
  PROVE  AXs(K, S, X \cap Y) = AXs(K, S, X) \cap AXs(K, S, Y)
BY DEF AXs

THEOREM EXTrueOnTotal ==
  ASSUME NEW S, NEW K \in [S -> SUBSET S], \A s \in S : K[s] # {}
  PROVE  EXs(K, S, S) = S
BY DEF EXs

(* E[A U {}] = {} and A[A U {}] = {}: {} is a fixed point of both unfoldings on a total structure *)
THEOREM UntilEmptyFixedPoint ==
  ASSUME NEW S, NEW K \in [S -> SUBSET S], NEW A \in SUBSET S, \A s \in S : K[s] # {}
  PROVE  /\ {} \cup (A \cap EXs(K, S, {})) = {}
         /\ {} \cup (A \cap AXs(K, S, {})) = {}
BY DEF EXs, AXs

(* E[{} U T] = T and A[{} U T] = T: T is a fixed point of both unfoldings when the first argument is empty *)
THEOREM UntilFromEmpty ==
  ASSUME NEW S, NEW K \in [S -> SUBSET S], NEW T \in SUBSET S
  PROVE  /\ T \cup ({} \cap EXs(K, S, T)) = T
         /\ T \cup ({} \cap AXs(K, S, T)) = T
OBVIOUS

THEOREM BindJump ==     \* !{x}: @{x}: %A%  =  %A%
  ASSUME NEW S, NEW A \in SUBSET S
  PROVE  {s \in S : s \in JumpSet(S, [w \in S |-> A], s)} = A
BY DEF JumpSet

THEOREM ExistsVar ==    \* 3{x}: ({x} & %A%)  =  %A%      ({x} holds exactly in the state v)
  ASSUME NEW S, NEW A \in SUBSET S
  PROVE  UNION {{v} \cap A : v \in S} = A
OBVIOUS

THEOREM ForallImp ==    \* V{x}: ({x} => %A%)  =  %A%
  ASSUME NEW S, NEW A \in SUBSET S
  PROVE  {s \in S : \A v \in S : s \in (S \ {v}) \cup A} = A
OBVIOUS

THEOREM DomBindLeaf ==  \* !{x} in %A%: %T%  =  %A% & %T%
  ASSUME NEW S, NEW A \in SUBSET S, NEW T \in SUBSET S
  PROVE  {s \in A : s \in [w \in S |-> T][s]} = A \cap T
OBVIOUS

THEOREM DomExistsVar == \* 3{x} in %A%: {x} = %A%   and   3{x} in %A%: ({x} & %T%) = %A% & %T%
  ASSUME NEW S, NEW A \in SUBSET S, NEW T \in SUBSET S
  PROVE  /\ UNION {{v} : v \in A} = A
         /\ UNION {{v} \cap T : v \in A} = A \cap T
OBVIOUS

THEOREM DomForallImp == \* V{x} in %A%: ({x} => %T%)  =  ~%A% | %T%
  ASSUME NEW S, NEW A \in SUBSET S, NEW T \in SUBSET S
  PROVE  {s \in S : \A v \in A : s \in (S \ {v}) \cup T} = (S \ A) \cup T
OBVIOUS

(* ---- the converter's Shannon expansion (Converter.Explode), one level, for an arbitrary set X of valuations ---- *)
(* ---- of the remaining arguments: the induction step behind MC_Converter's completeness check              ---- *)
Ite(a, t, e) == (a => t) /\ (~a => e)          \* what Explode builds at every level

THEOREM ShannonStep ==
  ASSUME NEW a \in BOOLEAN, NEW t \in BOOLEAN, NEW e \in BOOLEAN
  PROVE  Ite(a, t, e) = (IF a THEN t ELSE e)
BY DEF Ite

(* every function of (a, x) is reached: choose the two cofactors *)
THEOREM ShannonSurjective ==
  ASSUME NEW X, NEW g \in [BOOLEAN \X X -> BOOLEAN]
  PROVE  \E t \in [X -> BOOLEAN], e \in [X -> BOOLEAN] :
           \A a \in BOOLEAN, x \in X : Ite(a, t[x], e[x]) = g[<<a, x>>]
<1> DEFINE t0 == [x \in X |-> g[<<TRUE, x>>]]
           e0 == [x \in X |-> g[<<FALSE, x>>]]
<1>1. t0 \in [X -> BOOLEAN] /\ e0 \in [X -> BOOLEAN]
  OBVIOUS
<1>2. \A a \in BOOLEAN, x \in X : Ite(a, t0[x], e0[x]) = g[<<a, x>>]
  BY DEF Ite
<1> QED BY <1>1, <1>2

(* ... and by exactly one pair of cofactors: distinct constants valuations give distinct functions *)
THEOREM ShannonInjective ==
  ASSUME NEW X, NEW t \in [X -> BOOLEAN], NEW e \in [X -> BOOLEAN],
         NEW t2 \in [X -> BOOLEAN], NEW e2 \in [X -> BOOLEAN],
         \A a \in BOOLEAN, x \in X : Ite(a, t[x], e[x]) = Ite(a, t2[x], e2[x])
  PROVE  t = t2 /\ e = e2
<1>1. \A x \in X : t[x] = t2[x]
  <2> TAKE x \in X
  <2>1. Ite(TRUE, t[x], e[x]) = Ite(TRUE, t2[x], e2[x])
    OBVIOUS
  <2> QED BY <2>1 DEF Ite
<1>2. \A x \in X : e[x] = e2[x]
  <2> TAKE x \in X
  <2>1. Ite(FALSE, t[x], e[x]) = Ite(FALSE, t2[x], e2[x])
    OBVIOUS
  <2> QED BY <2>1 DEF Ite
<1> QED BY <1>1, <1>2

(* over an empty domain exists is false and forall is true *)
THEOREM EmptyDomain ==
  ASSUME NEW S, NEW Phi \in [S -> SUBSET S]
  PROVE  /\ UNION {Phi[v] : v \in {}} = {}
         /\ {s \in S : \A v \in {} : s \in Phi[v]} = S
OBVIOUS
=============================================================================
