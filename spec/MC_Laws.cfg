INIT Init
NEXT Next
INVARIANT LawHolds
CHECK_DEADLOCK FALSE
