--------------------------------- MODULE Cli ---------------------------------
(***************************************************************************)
(* One run of the command-line tool (main.rs + analysis.rs + load_inputs.rs*)
(* + result_print.rs + generate_output.rs) as a state machine, and result  *)
(* archives as maps.  A run is described by a record R:                    *)
(*   modelOk, fileOk  : the model / formula file could be read             *)
(*   lines            : the formula file, one classified character         *)
(*                      sequence per line (Syntax.tla's character records) *)
(*   opt              : "no-print" | "summary" | "with-progress" |         *)
(*                      "exhaustive"                                       *)
(*   ext, ctxOk, ctxLabels : a context archive was given / could be read / *)
(*                      the labels it holds                                *)
(*   out              : an output archive was requested                    *)
(*   netVars          : the network's variable names                       *)
(*   lib              : the library's results for the effective formulae,  *)
(*                      in order, as sets of colour*2^n+state              *)
(*   n                : number of network variables                        *)
(* The OBSERVABLE behaviour is the sequence `printed` of abstract output   *)
(* records and the final `archive`.                                        *)
(***************************************************************************)
EXTENDS Hctl, Syntax

(* ---- the formula-file loader: trim, drop blank and '#' lines, keep order ---- *)
RECURSIVE DropLeading(_), DropTrailing(_)
DropLeading(cs)  == IF cs # <<>> /\ cs[1].k = "s" THEN DropLeading(Tail(cs)) ELSE cs
DropTrailing(cs) == IF cs # <<>> /\ cs[Len(cs)].k = "s" THEN DropTrailing(SubSeq(cs, 1, Len(cs) - 1)) ELSE cs
Trim(cs) == DropTrailing(DropLeading(cs))
IsFormulaLine(cs) == LET t == Trim(cs) IN t # <<>> /\ t[1].c # "#"
RECURSIVE EffectiveFrom(_, _)
EffectiveFrom(lines, j) ==
  IF j > Len(lines) THEN <<>>
  ELSE (IF IsFormulaLine(lines[j]) THEN <<Trim(lines[j])>> ELSE <<>>) \o EffectiveFrom(lines, j + 1)
Effective(R) == EffectiveFrom(R.lines, 1)

TreeOf(R, cs) == ParseChars(cs, R.ext)
FormulaOk(R, cs) ==
  LET f == TreeOf(R, cs) IN IsOk(f) /\ WellScoped(f, {}) /\ Props(f) \subseteq R.netVars
LabelsOk(R, cs) == Labels(TreeOf(R, cs)) \subseteq R.ctxLabels
AllFormulaeOk(R) == \A j \in 1..Len(Effective(R)) : FormulaOk(R, Effective(R)[j])
AllLabelsOk(R)   == \A j \in 1..Len(Effective(R)) : LabelsOk(R, Effective(R)[j])
(* the graph is built for the maximal nesting depth over ALL formulae *)
RECURSIVE MaxDepthFrom(_, _, _)
MaxDepthFrom(R, E, j) ==
  IF j > Len(E) THEN 0
  ELSE LET d == Depth(TreeOf(R, E[j])) r == MaxDepthFrom(R, E, j + 1) IN IF d > r THEN d ELSE r
GraphK(R) == MaxDepthFrom(R, Effective(R), 1)

(* will the run fail, and where *)
FailsAt(R) ==
  IF ~R.modelOk THEN "model"
  ELSE IF ~R.fileOk THEN "file"
  ELSE IF ~AllFormulaeOk(R) THEN "parse"
  ELSE IF R.ext /\ ~R.ctxOk THEN "context"
  ELSE IF R.ext /\ ~AllLabelsOk(R) THEN "labels"
  ELSE "none"

(* ---- what is printed for formula i ---- *)
W(R) == 2^R.n
ColoursOf(S, w) == {x \div w : x \in S}
StatesOf(S, w)  == {x % w : x \in S}
Summary(R, i) ==
  [what |-> "summary", idx |-> i, text |-> Effective(R)[i],
   results |-> Cardinality(R.lib[i]),
   colours |-> Cardinality(ColoursOf(R.lib[i], W(R))),
   states  |-> Cardinality(StatesOf(R.lib[i], W(R)))]
Listing(R, i) == [what |-> "listing", idx |-> i, states |-> StatesOf(R.lib[i], W(R))]
Message == [what |-> "message"]

(* ---- archives: a map from entry name to content ---- *)
RECURSIVE ResultEntries(_, _)
ResultEntries(R, i) ==     \* formula-0 is the first effective formula
  IF i > Len(Effective(R)) THEN [x \in {} |-> {}]
  ELSE ("formula-" \o ToString(i - 1) :> R.lib[i]) @@ ResultEntries(R, i + 1)

(* ---- the state machine ---- *)
VARIABLES pc, i, printed, archive
cvars == <<pc, i, printed, archive>>
NoArchive == [written |-> FALSE]
OldArchive == [written |-> FALSE, old |-> TRUE]    \* history: the output path already holds an archive of an earlier run

CInitWith(oldThere) == pc = "start" /\ i = 1 /\ printed = <<>> /\ archive = IF oldThere THEN OldArchive ELSE NoArchive
CInit == CInitWith(FALSE)

Fail(R) ==          \* every failure: one message, nothing else, ends the run (exit status 0)
  /\ pc = "start" /\ FailsAt(R) # "none"
  /\ pc' = "failed" /\ printed' = <<Message>> /\ UNCHANGED <<i, archive>>
Prepare(R) ==       \* load model, formulae, parse all, build graph, load context
  /\ pc = "start" /\ FailsAt(R) = "none"
  /\ pc' = "eval" /\ UNCHANGED <<i, printed, archive>>
Eval(R) ==          \* evaluate formula i (in file order) and print according to the option
  /\ pc = "eval" /\ i <= Len(Effective(R))
  /\ printed' = printed \o
        (CASE R.opt = "no-print" -> <<>>
           [] R.opt \in {"summary", "with-progress"} -> <<Summary(R, i)>>
           [] R.opt = "exhaustive" -> <<Summary(R, i), Listing(R, i)>>)
  /\ i' = i + 1 /\ UNCHANGED <<pc, archive>>
WriteArchive(R) ==
  /\ pc = "eval" /\ i = Len(Effective(R)) + 1 /\ R.out
  /\ archive' = [written |-> TRUE, sets |-> ResultEntries(R, 1), formulae |-> Effective(R)]
  /\ pc' = "done" /\ UNCHANGED <<i, printed>>
Finish(R) ==
  /\ pc = "eval" /\ i = Len(Effective(R)) + 1 /\ ~R.out
  /\ pc' = "done" /\ UNCHANGED <<i, printed, archive>>
CNext(R) == Fail(R) \/ Prepare(R) \/ Eval(R) \/ WriteArchive(R) \/ Finish(R)

(* ---- properties of the design (checked by TLC in MC_Cli) ---- *)
(* formulae are reported in file order, each at most once *)
InOrder ==
  \A a, b \in 1..Len(printed) :
    (a < b /\ printed[a].what # "message" /\ printed[b].what # "message") => printed[a].idx <= printed[b].idx
(* a failed run printed exactly one message and evaluated nothing *)
FailQuiet == pc = "failed" => printed = <<Message>> /\ ~archive.written
(* a failed run leaves whatever was at the output path alone; a written archive REPLACES what was there *)
FailKeepsOld == pc = "failed" => archive \in {NoArchive, OldArchive}
Replaced     == archive.written => DOMAIN archive = {"written", "sets", "formulae"}
(* a finished run reported every formula (unless no-print) and archived every result *)
Complete(R) ==
  pc = "done" =>
    /\ (R.opt # "no-print" => \A j \in 1..Len(Effective(R)) : \E a \in 1..Len(printed) :
                                  printed[a].what = "summary" /\ printed[a].idx = j)
    /\ (R.out => archive.written /\ DOMAIN archive.sets = {"formula-" \o ToString(j - 1) : j \in 1..Len(Effective(R))})
=============================================================================
