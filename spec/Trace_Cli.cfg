INIT Init
NEXT Next
INVARIANT VerdictC17
CHECK_DEADLOCK FALSE
