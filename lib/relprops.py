"""Primitive-level conformance (spec/Trace_Rel.tla): the crate's symbolic primitives, reached through the
cfg(hctl_verif) re-export `evaluation::primitives_export`, are called on ARBITRARY raw relations (random,
structured and - on the tiniest universe - all of them) over (colour, state, variable copies), on graphs
whose unit set is optionally restricted by a relation over the copies; TLC compares every recorded result
with the set-level contract of the primitive in spec/Rel.tla.

A disagreement is MODEL DRIFT (NOTE), never a property violation: it says that the contract which Rel.tla
(and hence Evaluator.tla / MC_Evaluator) assumes for a primitive is not what the code does.

usage: python3 lib/relprops.py [quick|thorough] [seed]"""
import concurrent.futures
import itertools
import json
import os
import random
import re
import sys

sys.path.insert(0, os.path.dirname(os.path.abspath(__file__)))
import common
import gen
from common import ToolError

FIXED = [
    ("pr_one", "a -?? a\n", 2),                                   # 1 variable, 2 parameter bits: exhaustive unary inputs for k = 1
    ("pr_osc", "a -| b\nb -> a\n$a: !b\n$b: a\n", 2),
    ("pr_param", "a -?? b\nb -?? a\na -?? a\n$a: a | f(b)\n$b: b & a\n", 2),
    ("pr_constrained", "a -> b\nb -| a\n$a: !b | k\n", 2),       # unit set excludes colours
    ("pr_steady", "a -?? a\nb -?? b\na -?? b\n$a: a\n$b: a & b\n", 2),
    ("pr_obs", "a -> b\nb -? a\n", 1),                            # observable + monotone: few valid colours
]
UNARY = ["neg", "bind", "exists", "jump", "ex", "ax", "ef", "eg", "af", "ag", "project_var", "project_state",
         "domain_of", "restrict", "ef_ex"]
BINARY = ["imp", "iff", "xor", "eu", "au", "ew", "aw", "eu_ex"]
WITH_ST = {"ex", "ax", "eg", "af", "au", "ew", "eu_ex", "ef_ex"}
WITH_I = {"bind", "exists", "jump", "project_var", "domain_of", "var"}


def universe(m, k):
    n, p = m["n"], m["pbits"]
    return [[c, s] + list(h) for c in range(1 << p) for h in itertools.product(range(1 << n), repeat=k) for s in range(1 << n)]


def rand_rel(rng, U, m, k, unit_cols):
    """a raw relation: random density; sometimes structured (inside the valid colours, independent of the copies,
    a single tuple, everything, nothing)"""
    kind = rng.choice(["rand", "rand", "rand", "valid", "indep", "single", "all", "none", "sparse"])
    if kind == "all":
        return list(U)
    if kind == "none":
        return []
    if kind == "single":
        return [rng.choice(U)]
    if kind == "sparse":
        return [t for t in U if rng.random() < 0.08]
    if kind == "indep":
        keep = {(c, s) for c in range(1 << m["pbits"]) for s in range(1 << m["n"]) if rng.random() < 0.5}
        return [t for t in U if (t[0], t[1]) in keep]
    d = rng.choice([0.2, 0.5, 0.8])
    r = [t for t in U if rng.random() < d]
    if kind == "valid":
        r = [t for t in r if t[0] in unit_cols]
    return r


def make_op(rng, name, U, m, k, unit_cols):
    op = {"op": name}
    if name in UNARY or name in BINARY:
        op["a"] = rand_rel(rng, U, m, k, unit_cols)
    if name in BINARY:
        op["b"] = rand_rel(rng, U, m, k, unit_cols)
    if name in WITH_ST:
        if rng.random() < 0.6:
            op["st_kind"], op["st"] = "steady", []
        else:
            op["st_kind"], op["st"] = "given", rand_rel(rng, U, m, k, unit_cols)
    else:
        op["st_kind"], op["st"] = "steady", []
    if name in WITH_I:
        op["i"] = rng.randint(1, k)
    if name in ("comp2", "substitute"):
        op["i"] = rng.randint(1, k)
        op["j"] = rng.randint(1, k)
        if name == "substitute":
            op["a"] = rand_rel(rng, U, m, k, unit_cols)
            if op["i"] != op["j"] and rng.random() < 0.7:
                # the evaluator's use: the set does not depend on the target variable
                j = op["j"]
                keep = {tuple(t[:2 + j - 1] + t[2 + j:]) for t in op["a"]}
                op["a"] = [t for t in U if tuple(t[:2 + j - 1] + t[2 + j:]) in keep]
    if name == "prop":
        op["name"] = rng.choice(m["vars"])
    return op


def cases_for(rng, m, tier):
    out = []
    ks = [1, 2] if m["n"] * 3 + m["pbits"] <= 9 else [1]
    if m["n"] == 1:
        ks = [1, 2, 3]
    n_cases = 3 if tier == "quick" else 10
    for k in ks:
        U = universe(m, k)
        if len(U) > 4096:
            continue
        unit_cols = set(m.get("valid_colours") or range(1 << m["pbits"]))
        for ci in range(n_cases):
            case = {"id": "%s-k%d-%d" % (m["id"], k, ci), "net": m["id"], "k": k, "ops": []}
            if ci % 3 == 1:
                # a unit set restricted by a relation over the copies (what a domain quantifier does)
                case["unit"] = [t for t in U if rng.random() < 0.6]
            elif ci % 3 == 2:
                # a domain restriction proper: x_i ranges over a set of (colour, state) pairs
                i = rng.randint(1, k)
                dom = {(c, s) for c in range(1 << m["pbits"]) for s in range(1 << m["n"]) if rng.random() < 0.6}
                case["unit"] = [t for t in U if (t[0], t[1 + i]) in dom]
            names = ["prop", "var", "comp2", "substitute", "steady"] + UNARY + BINARY
            for name in names:
                for _ in range(1 if tier == "quick" else 2):
                    case["ops"].append(make_op(rng, name, U, m, k, unit_cols))
            out.append(case)
    return out


def exhaustive_case(m):
    """every raw relation of the tiniest universe (1 variable, k = 1, <= 2 parameter bits) through every unary primitive"""
    U = universe(m, 1)
    if len(U) > 16:
        return []
    cases = []
    rels = [[t for j, t in enumerate(U) if (mask >> j) & 1] for mask in range(1 << len(U))]
    step = 4096
    for name in ["neg", "bind", "exists", "jump", "ex", "ax", "ef", "eg", "af", "ag", "project_var", "project_state", "domain_of"]:
        for off in range(0, len(rels), step):
            cases.append({"id": "%s-all-%s-%d" % (m["id"], name, off), "net": m["id"], "k": 1,
                          "ops": [{"op": name, "a": r, "st_kind": "steady", "st": [], "i": 1} for r in rels[off:off + step]]})
    return cases


def run_primitives(tier, seed, wd):
    rng = random.Random(seed * 2654435761 % (1 << 31) + 17)
    models = [dict(id=i, model=t, format="aeon") for i, t, _ in FIXED]
    n_rand = 4 if tier == "quick" else 14
    for j in range(n_rand * 3):
        models.append(dict(id="prr%d" % j, model=gen.rand_network(rng, rng.choice([1, 2, 2, 3]), max_pbits=3), format="aeon"))
    nets = common.probe_networks(models)
    nets = [m for m in nets if m["pbits"] <= 3 and m["n"] <= 3]
    fixed_ids = {i for i, _, _ in FIXED}
    nets = [m for m in nets if m["id"] in fixed_ids] + [m for m in nets if m["id"] not in fixed_ids][:n_rand]
    cases = []
    for m in nets:
        cases += cases_for(rng, m, tier)
    if tier == "thorough":
        for m in nets:
            if m["id"] == "pr_one":
                cases += exhaustive_case(m)
    jobs = os.path.join(wd, "prim-jobs.json")
    json.dump({"nets": nets, "cases": cases}, open(jobs, "w"))
    why = common.build_prims()
    if why is not None:
        return {"unavailable": why, "cases": 0, "ops": 0, "accepted": 0, "drift": [], "states": 0, "distinct": 0,
                "networks": len(nets), "primitives": []}
    r = common.sh([common.PRIMS_BIN, jobs, os.path.join(wd, "prim-out")], timeout=3600)
    if r.returncode != 0:
        raise ToolError("harness prims failed: %s" % (r.stderr or r.stdout)[-2000:])
    # one TLC process per (network, chunk of cases)
    parts = []
    for m in nets:
        doc = json.load(open(os.path.join(wd, "prim-out", m["id"] + ".json")))
        cs = [c for c in doc["cases"] if "skipped" not in c]
        for c in cs:
            for o in c["ops"]:
                if o.get("outcome") == "toolerr":
                    raise ToolError("harness could not run primitive %s: %s" % (o["op"], o.get("msg")))
        size = 6
        for off in range(0, len(cs), size):
            part = dict(doc)
            part["cases"] = cs[off:off + size]
            pth = os.path.join(wd, "prim-%s-%d.json" % (m["id"], off))
            json.dump(part, open(pth, "w"))
            parts.append(pth)

    def one(i_path):
        i, path = i_path
        return path, common.run_tlc("Trace_Rel.tla", "Trace_Rel.cfg", os.path.join(wd, "meta-prim-%d" % i),
                                    env={"CASEFILE": path}, timeout=3000)

    res = {"cases": 0, "ops": 0, "accepted": 0, "drift": [], "states": 0, "distinct": 0, "networks": len(nets),
           "primitives": sorted({o["op"] for c in cases for o in c["ops"]})}
    with concurrent.futures.ThreadPoolExecutor(max_workers=common.NPROC) as ex:
        for path, (out, rc, wall) in ex.map(one, list(enumerate(parts))):
            doc = json.load(open(path))
            found = dict(common.VERDICT_RE.findall(out))
            if len(found) != len(doc["cases"]):
                raise ToolError("Trace_Rel did not judge every case of %s:\n%s" % (path, out[-3000:]))
            g, d = common.tlc_counts(out)
            res["states"] += g
            res["distinct"] += d
            for c in doc["cases"]:
                res["cases"] += 1
                res["ops"] += len(c["ops"])
                if found[c["id"]].strip().strip('"') == "T":
                    res["accepted"] += 1
                else:
                    mm = re.search(r'<<\s*"DRIFT",\s*"%s",\s*(\w+),\s*\{([^}]*)\}' % re.escape(c["id"]), out, re.S)
                    res["drift"].append((c["id"], mm.group(1) if mm else "?", mm.group(2).strip() if mm else "?"))
    return res


def selftest(seed=1):
    """binding demonstration: one tuple toggled in one recorded result per case -> every case must be rejected"""
    wd = common.workdir("prims-selftest")
    r = run_primitives("quick", seed, wd)
    assert not r["drift"] and "unavailable" not in r, r
    rng = random.Random(seed)
    parts = sorted(f for f in os.listdir(wd) if f.startswith("prim-") and f.endswith(".json") and f != "prim-jobs.json")
    total = rejected = 0
    jobs = []
    for f in parts:
        doc = json.load(open(os.path.join(wd, f)))
        for c in doc["cases"]:
            ops = [o for o in c["ops"] if o.get("outcome") == "ok"]
            o = rng.choice(ops)
            width = 2 + c["k"]
            if o["res"] and rng.random() < 0.5:
                o["res"].pop(rng.randrange(len(o["res"])))
            else:
                cand = None
                have = {tuple(x) for x in o["res"]}
                # first tuple (in lexicographic order over a small box) that is not in the result
                for tup in itertools.product(range(2), repeat=width):
                    if tup not in have:
                        cand = list(tup)
                        break
                if cand is None:
                    o["res"].pop(0)
                else:
                    o["res"].append(cand)
        pth = os.path.join(wd, "corrupt-" + f)
        json.dump(doc, open(pth, "w"))
        jobs.append((pth, len(doc["cases"])))

    def one(i_x):
        i, (pth, n) = i_x
        return n, common.run_tlc("Trace_Rel.tla", "Trace_Rel.cfg", os.path.join(wd, "meta-corrupt-%d" % i), env={"CASEFILE": pth}, timeout=3000)

    with concurrent.futures.ThreadPoolExecutor(max_workers=common.NPROC) as ex:
        for n, (out, rc, wall) in ex.map(one, list(enumerate(jobs))):
            found = common.VERDICT_RE.findall(out)
            assert len(found) == n, out[-2000:]
            total += n
            rejected += sum(1 for _, v in found if v.strip().strip('"') == "F")
    return total, rejected


if __name__ == "__main__":
    if len(sys.argv) > 1 and sys.argv[1] == "selftest":
        common.build()
        print("primitive-level self-test: %d corrupted cases, %d rejected" % selftest())
        sys.exit(0)
    tier = sys.argv[1] if len(sys.argv) > 1 else "quick"
    seed = int(sys.argv[2]) if len(sys.argv) > 2 else 1
    common.build()
    wd = common.workdir("prims-%s" % tier)
    r = run_primitives(tier, seed, wd)
    print(json.dumps({k: v for k, v in r.items() if k != "drift"}))
    for d in r["drift"][:40]:
        print("NOTE model-drift (primitive contracts): case %s unit_ok=%s primitives=%s" % d)
