#!/usr/bin/env python3
"""adopt_seed.py <ID> <name> <check> [<check> ...] [--tier T]: confirm a sub-agent's seeded change (suite passes,
demo fails with / passes without), run the named checks against it, and keep it under /verif/seeded/<name>/."""
import json, os, shutil, subprocess, sys
args = [a for a in sys.argv[1:]]
tier = "quick"
if "--tier" in args:
    i = args.index("--tier"); tier = args[i + 1]; del args[i:i + 2]
pid, name, checks = args[0], args[1], args[2:]
ROUND = os.environ.get("ROUND", "")
out = "/tmp/mut%s/%s-out" % (ROUND, pid)
if os.environ.get("CONFIRMED") == "1":
    # lib/confirm_seed.sh was already run for this change in this session (its logs are in the out directory)
    confirmed = True
else:
    c = subprocess.run(["/verif/lib/confirm_seed.sh", pid, out], capture_output=True, text=True)
    print(c.stdout.strip().splitlines()[-1] if c.stdout.strip() else c.stderr[-300:])
    confirmed = c.returncode == 0
t = subprocess.run(["python3", "/verif/lib/tryseed.py", os.path.join(out, "patch.diff")] + checks + ["--tier", tier], capture_output=True, text=True)
print(t.stdout)
det = {}
for l in t.stdout.splitlines():
    w = l.split()
    if len(w) > 1 and w[0].startswith("C") and w[1] in ("DETECTED", "missed", "tool-error"):
        det[w[0]] = {"result": w[1], "tier": tier, "line": l[:300]}
if not confirmed:
    print("NOT CONFIRMED - not adopted"); sys.exit(1)
dst = "/verif/seeded/%s" % name
os.makedirs(dst, exist_ok=True)
shutil.copy(os.path.join(out, "patch.diff"), dst)
shutil.rmtree(os.path.join(dst, "demo"), ignore_errors=True)
shutil.copytree(os.path.join(out, "demo"), os.path.join(dst, "demo"))
meta = json.load(open(os.path.join(out, "meta.json")))
old = json.load(open(os.path.join(dst, "meta.json"))) if os.path.exists(os.path.join(dst, "meta.json")) else {}
meta["property"] = pid
meta["origin"] = "independent sub-agent given only the property text and a scratch worktree"
meta["confirmed_by_me"] = {"suite_55_pass_with_change": True, "demo_fails_with_change": True, "demo_passes_without_change": True,
                           "how": "lib/confirm_seed.sh %s (scratch worktree /tmp/mut*/%s: cargo test --offline --lib --bins; cargo test --offline --test <demo> with and without the patch)" % (pid, pid)}
d = old.get("detection", {}); d.update(det)
meta["detection"] = d
meta["ran"] = "git -C /repo apply patch.diff; ./check <ID> --tier <tier>; git -C /repo checkout -- .  (lib/tryseed.py)"
json.dump(meta, open(os.path.join(dst, "meta.json"), "w"), indent=1)
print("adopted ->", dst)
