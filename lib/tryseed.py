#!/usr/bin/env python3
"""tryseed.py <patch.diff> <ID> [<ID> ...] [--tier quick|thorough]: apply a seeded change to /repo, run the
checks, undo the change. Prints one line per check: DETECTED / missed / tool-error."""
import subprocess, sys, os, shutil, tempfile
args = [a for a in sys.argv[1:] if not a.startswith("--")]
tier = "quick"
if "--tier" in sys.argv:
    tier = sys.argv[sys.argv.index("--tier") + 1]
    args = [a for a in args if a != tier]
patch, ids = args[0], args[1:]
assert subprocess.run(["git", "-C", "/repo", "status", "--porcelain", "--untracked-files=no"], capture_output=True, text=True).stdout.strip() == "", "/repo not clean"
r = subprocess.run(["git", "-C", "/repo", "apply", patch], capture_output=True, text=True)
if r.returncode != 0:
    print("patch does not apply:", r.stderr); sys.exit(2)
# the evidence files describe the UNCHANGED tree: keep them aside while the checks run against the changed one
keep = tempfile.mkdtemp(prefix="evidence-keep-", dir="/verif/work" if os.path.isdir("/verif/work") else None)
for i in ids:
    f = "/verif/evidence/%s.json" % i
    if os.path.exists(f):
        shutil.copy2(f, keep)
try:
    for i in ids:
        p = subprocess.run(["/verif/check", i, "--tier", tier], capture_output=True, text=True, cwd="/verif")
        viol = [l for l in p.stdout.splitlines() if l.startswith("VIOLATION")]
        notes = [l for l in p.stdout.splitlines() if l.startswith("NOTE")]
        status = {0: "missed", 1: "DETECTED", 2: "tool-error"}.get(p.returncode, "rc=%d" % p.returncode)
        print("%s %s (%s): %d violation lines, %d notes; %s" % (i, status, tier, len(viol), len(notes), p.stdout.strip().splitlines()[-1][:200] if p.stdout.strip() else p.stderr[-300:]))
        if p.returncode == 2:
            print(p.stdout[-1500:])
finally:
    subprocess.run(["git", "-C", "/repo", "checkout", "--", "."])
    for i in ids:
        k = os.path.join(keep, "%s.json" % i)
        if os.path.exists(k):
            shutil.copy2(k, "/verif/evidence/%s.json" % i)
    shutil.rmtree(keep, ignore_errors=True)
