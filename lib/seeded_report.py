#!/usr/bin/env python3
"""Re-run, for every seeded change under /verif/seeded (or only those whose directory name contains one of the
given substrings), the checks named in its meta.json (--fast: only the check of the property it breaks), update
meta.json and write seeded/README.md."""
import json, os, subprocess, sys, glob
rows = []
for d in sorted(glob.glob("/verif/seeded/*/")):
    mp = os.path.join(d, "meta.json")
    if not os.path.exists(mp):
        continue
    meta = json.load(open(mp))
    pid = meta["property"]
    checks = sorted(set([pid] + list(meta.get("detection", {}).keys())))
    if "--fast" in sys.argv:
        checks = [pid]
    only = [a for a in sys.argv[1:] if not a.startswith("--")]
    rerun = not only or any(o in d for o in only)
    r = subprocess.run(["python3", "/verif/lib/tryseed.py", os.path.join(d, "patch.diff")] + checks, capture_output=True, text=True) if rerun else None
    det = meta.get("detection", {})
    for l in (r.stdout.splitlines() if r else []):
        w = l.split()
        if len(w) > 1 and w[0].startswith("C") and w[1] in ("DETECTED", "missed", "tool-error"):
            det[w[0]] = {"result": w[1], "tier": "quick", "line": l[:300]}
    meta["detection"] = det
    json.dump(meta, open(mp, "w"), indent=1)
    rows.append((os.path.basename(d.rstrip("/")), pid, meta.get("summary", "")[:160].replace("\n", " "), meta.get("needs", "")[:200].replace("\n", " ") if isinstance(meta.get("needs"), str) else str(meta.get("needs"))[:200],
                 ", ".join("%s: %s" % (k, v["result"]) for k, v in sorted(det.items()))))
    print(rows[-1][0], rows[-1][-1], flush=True)
with open("/verif/seeded/README.md", "w") as f:
    f.write("# Seeded changes\n\nEach directory holds a change to sybila/biodivine-hctl-model-checker that breaks one property while the crate still compiles and its 55 tests pass: `patch.diff`, a demonstration (`demo/`, fails with the change, passes without), and `meta.json` (what it needs to manifest, what was run, which checks detect it). All were written by independent sub-agents that saw only the property text, and were confirmed in a scratch worktree (`lib/confirm_seed.sh`). None is ever committed to /repo. To run a check against one: `python3 lib/tryseed.py seeded/<name>/patch.diff <ID>`.\n\n")
    f.write("| change | property | what it does | detection (quick tier) |\n|---|---|---|---|\n")
    for name, pid, summ, needs, det in rows:
        f.write("| %s | %s | %s | %s |\n" % (name, pid, summ.replace("|", "/"), det))
print("README written")
