#!/usr/bin/env python3
"""Automatic mutation campaign (complements lib/mutants.py, which is hand-written).

phase 1  python3 lib/automut.py gen [workers]
    enumerates single-line operator mutants of /repo's sources (outside tests, comments and cfg(hctl_verif)
    blocks), and classifies each one IN SCRATCH WORKTREES under /tmp/am (never in /repo):
    does-not-compile / killed-by-suite (the existing 55 tests see it) / survivor.
phase 2  python3 lib/automut.py run [max]
    applies each survivor to /repo's working tree (git apply), runs the quick tier of the checks that cover the
    mutated file, undoes it (git checkout), and records DETECTED / missed.  Nothing is committed to /repo.
phase 3  python3 lib/automut.py report
    writes /verif/seeded/automut.md from /verif/seeded/automut.json (which also holds the manual triage notes
    of missed survivors: `triage` = equivalent / not-a-violation / MISS).
"""
import json
import os
import re
import subprocess
import sys
import threading
import signal
import time

PER_CHECK_TIMEOUT = 420

REPO = "/repo"
OUT = "/verif/seeded/automut.json"
FILES = {
    "src/preprocessing/tokenizer.rs": ["C05", "C06"],
    "src/preprocessing/parser.rs": ["C05", "C08"],
    "src/preprocessing/hctl_tree.rs": ["C06", "C08", "C09"],
    "src/preprocessing/operator_enums.rs": ["C06", "C05"],
    "src/preprocessing/utils.rs": ["C07", "C08", "C14"],
    "src/evaluation/algorithm.rs": ["C02", "C04", "C10", "C12", "C18", "C20"],
    "src/evaluation/canonization.rs": ["C09", "C04"],
    "src/evaluation/mark_duplicates.rs": ["C09", "C04", "C01"],
    "src/evaluation/eval_context.rs": ["C04", "C10", "C14"],
    "src/evaluation/hctl_operators_eval.rs": ["C01", "C03", "C11", "C13"],
    "src/evaluation/low_level_operations.rs": ["C01", "C02", "C03", "C15"],
    "src/postprocessing/sanitizing.rs": ["C15", "C03"],
    "src/mc_utils.rs": ["C14", "C15", "C01"],
    "src/model_checking.rs": ["C01", "C14", "C15", "C18"],
    "src/analysis.rs": ["C17"],
    "src/result_print.rs": ["C17"],
    "src/generate_output.rs": ["C16", "C17"],
    "src/load_inputs.rs": ["C16", "C17"],
    "src/main.rs": ["C17"],
    "src/bin/convert_aeon_to_bnet.rs": ["C19"],
}

OPS = [
    ("intersect->union", r"\.intersect\(", ".union("),
    ("union->intersect", r"\.union\(", ".intersect("),
    ("minus->intersect", r"\.minus\(", ".intersect("),
    ("drop-unit-intersection", r"\.intersect\(&?\w+\.(mk_)?unit_colored_vertices\(\)\)", ""),
    ("unit->empty", r"mk_unit_colored_vertices\(\)", "mk_empty_colored_vertices()"),
    ("empty->unit", r"mk_empty_colored_vertices\(\)", "mk_unit_colored_vertices()"),
    ("and->or(bdd)", r"\.and\(", ".or("),
    ("or->and(bdd)", r"\.or\(", ".and("),
    ("eq->ne", r" == ", " != "),
    ("ne->eq", r" != ", " == "),
    ("lt->le", r" < ", " <= "),
    ("le->lt", r" <= ", " < "),
    ("gt->ge", r" > ", " >= "),
    ("ge->gt", r" >= ", " > "),
    ("andand->oror", r" && ", " || "),
    ("oror->andand", r" \|\| ", " && "),
    ("plus1-dropped", r" \+ 1\b", ""),
    ("minus1-dropped", r" - 1\b", ""),
    ("inc-by-2", r"\+= 1;", "+= 2;"),
    ("dec-by-2", r"-= 1;", "-= 2;"),
    ("true->false", r"\btrue\b", "false"),
    ("false->true", r"\bfalse\b", "true"),
    ("if-not->if", r"\bif !", "if "),
    ("is_empty-negated", r"(\b[\w\.]+)\.is_empty\(\)", r"!\1.is_empty()"),
    ("is_some->is_none", r"\.is_some\(\)", ".is_none()"),
    ("is_none->is_some", r"\.is_none\(\)", ".is_some()"),
    ("first->last(idx)", r"\[0\]", "[1]"),
]
DELETE = re.compile(r"^\s*[\w\.\[\]&\*]+\.(remove|insert|push|push_str|retain|extend|clear|truncate|pop)\(.*\);\s*$")


def code_lines(path):
    """(line number, text) of mutable lines: before the first #[cfg(test)], not comments, not inside cfg(hctl_verif) blocks"""
    out = []
    skip_depth = None
    depth = 0
    pending_cfg = False
    for no, line in enumerate(open(os.path.join(REPO, path)).read().split("\n")):
        s = line.strip()
        if s.startswith("#[cfg(test)]"):
            break
        if "cfg(hctl_verif)" in s:
            pending_cfg = True
            continue
        opens, closes = line.count("{"), line.count("}")
        if pending_cfg:
            if opens > closes:
                skip_depth = depth
                pending_cfg = False
                depth += opens - closes
                continue
            if s.endswith(";") or s.endswith(","):
                pending_cfg = False
            continue
        depth += opens - closes
        if skip_depth is not None:
            if depth <= skip_depth:
                skip_depth = None
            continue
        if not s or s.startswith("//") or s.startswith("#[") or s.startswith("use ") or s.startswith("pub use "):
            continue
        out.append((no, line))
    return out


def enumerate_mutants():
    muts = []
    for path in FILES:
        for no, line in code_lines(path):
            code = line.split("//")[0]
            in_str = '"' in code
            for name, pat, rep in OPS:
                if in_str and name in ("true->false", "false->true", "eq->ne", "ne->eq", "lt->le", "gt->ge", "le->lt", "ge->gt"):
                    # only mutate outside string literals
                    parts = re.split(r'("(?:[^"\\]|\\.)*")', code)
                else:
                    parts = [code]
                for pi, part in enumerate(parts):
                    if part.startswith('"'):
                        continue
                    for m in re.finditer(pat, part):
                        new_part = part[:m.start()] + m.expand(rep) + part[m.end():]
                        new_code = "".join(parts[:pi] + [new_part] + parts[pi + 1:])
                        new_line = new_code + line[len(code):]
                        if new_line != line:
                            muts.append(dict(file=path, line=no + 1, op=name, old=line, new=new_line))
            if DELETE.match(code):
                muts.append(dict(file=path, line=no + 1, op="delete-statement", old=line, new=""))
    for i, m in enumerate(muts):
        m["id"] = "am%04d" % i
    return muts


def sh(cmd, cwd=None, env=None, timeout=3600):
    e = dict(os.environ)
    e.update(env or {})
    e["CARGO_NET_OFFLINE"] = "true"
    return subprocess.run(cmd, shell=True, cwd=cwd, env=e, capture_output=True, text=True, timeout=timeout)


def apply_in(wt, m):
    p = os.path.join(wt, m["file"])
    lines = open(p).read().split("\n")
    assert lines[m["line"] - 1] == m["old"], (m, lines[m["line"] - 1])
    lines[m["line"] - 1] = m["new"]
    open(p, "w").write("\n".join(lines))


def load():
    return json.load(open(OUT)) if os.path.exists(OUT) else {"head": None, "mutants": []}


def save(doc):
    tmp = OUT + ".tmp"
    json.dump(doc, open(tmp, "w"), indent=1)
    os.replace(tmp, OUT)


def phase1(workers):
    head = sh("git rev-parse HEAD", cwd=REPO).stdout.strip()
    doc = load()
    if doc["head"] != head:
        doc = {"head": head, "mutants": enumerate_mutants()}
        save(doc)
    todo = [m for m in doc["mutants"] if "suite" not in m]
    print("%d mutants, %d to classify" % (len(doc["mutants"]), len(todo)), flush=True)
    lock = threading.Lock()
    os.makedirs("/tmp/am", exist_ok=True)

    def work(w):
        wt, tgt = "/tmp/am/w%d" % w, "/tmp/am/t%d" % w
        sh("git -C %s worktree remove --force %s; git -C %s worktree add -q --detach %s HEAD" % (REPO, wt, REPO, wt))
        env = {"CARGO_TARGET_DIR": tgt}
        sh("cargo test --offline --no-run", cwd=wt, env=env)
        while True:
            with lock:
                if not todo:
                    break
                m = todo.pop(0)
            sh("git checkout -q -- .", cwd=wt)
            apply_in(wt, m)
            r = sh("cargo test --offline --no-run 2>&1 | tail -3", cwd=wt, env=env)
            b = sh("cargo build --offline --bins 2>&1 | grep -c '^error'", cwd=wt, env=env)
            if "error" in r.stdout or b.stdout.strip() != "0":
                res = "does-not-compile"
            else:
                try:
                    t = sh("cargo test --offline 2>&1 | grep -E '^test result' | head -1", cwd=wt, env=env, timeout=900)
                    res = "survivor" if "55 passed; 0 failed" in t.stdout else "killed-by-suite"
                except subprocess.TimeoutExpired:
                    res = "killed-by-suite(timeout)"
                    sh("pkill -f %s/debug/deps" % tgt)
            with lock:
                m["suite"] = res
                save(doc)
                print(m["id"], m["file"], m["line"], m["op"], res, flush=True)
        sh("git -C %s worktree remove --force %s; rm -rf %s" % (REPO, wt, tgt))

    ts = [threading.Thread(target=work, args=(w,)) for w in range(workers)]
    [t.start() for t in ts]
    [t.join() for t in ts]
    sh("git -C %s worktree prune" % REPO)


def phase2(limit):
    doc = load()
    assert sh("git status --porcelain", cwd=REPO).stdout.strip() == "", "/repo is not clean"
    n = 0
    for m in doc["mutants"]:
        if m.get("suite") != "survivor" or "checks" in m:
            continue
        if n >= limit:
            break
        n += 1
        apply_in(REPO, m)
        try:
            res = {}
            for c in FILES[m["file"]]:
                t0 = time.time()
                pr = subprocess.Popen("./check %s 2>&1" % c, shell=True, cwd="/verif", stdout=subprocess.PIPE, text=True, start_new_session=True,
                                      env=dict(os.environ, CARGO_NET_OFFLINE="true"))
                try:
                    out, _ = pr.communicate(timeout=PER_CHECK_TIMEOUT)
                except subprocess.TimeoutExpired:
                    os.killpg(pr.pid, signal.SIGKILL)
                    pr.communicate()
                    res[c] = "timeout(>%ds)" % PER_CHECK_TIMEOUT
                    continue
                r = subprocess.CompletedProcess(pr.args, pr.returncode, out, "")
                viol = len(re.findall(r"^VIOLATION property=", r.stdout, re.M))
                notes = len(re.findall(r"^NOTE", r.stdout, re.M))
                res[c] = ("DETECTED" if r.returncode == 1 and viol else ("tool-error" if r.returncode not in (0, 1) else "missed")) + ("+NOTE" if notes else "")
                if r.returncode not in (0, 1):
                    res[c] += ": " + r.stdout.strip().split("\n")[-1][:160]
        finally:
            sh("git checkout -q -- .", cwd=REPO)
        m["checks"] = res
        save(doc)
        print(m["id"], m["file"], m["line"], m["op"], res, flush=True)
    assert sh("git status --porcelain", cwd=REPO).stdout.strip() == ""


def report():
    doc = load()
    ms = doc["mutants"]
    by = {}
    for m in ms:
        by[m.get("suite", "unclassified")] = by.get(m.get("suite", "unclassified"), 0) + 1
    surv = [m for m in ms if m.get("suite") == "survivor"]
    det = [m for m in surv if any(v.startswith("DETECTED") for v in m.get("checks", {}).values())]
    with open("/verif/seeded/automut.md", "w") as f:
        f.write("# Automatic mutation campaign (lib/automut.py)\n\n")
        f.write("Single-line operator mutants of /repo at %s, classified in scratch worktrees; survivors (compile, 55/55 tests pass) "
                "applied to /repo one at a time and run against the quick tier of the checks covering the file.\n\n" % doc["head"][:10])
        f.write("%d mutants: %s.\n\n" % (len(ms), ", ".join("%d %s" % (v, k) for k, v in sorted(by.items()))))
        f.write("Survivors run against the checks: %d; detected by at least one check: %d; not detected: %d "
                "(each triaged below - `equivalent` / `not-a-violation` mean that an alarm would have been a false one).\n\n"
                % (len([m for m in surv if "checks" in m]), len(det), len([m for m in surv if "checks" in m]) - len(det)))
        f.write("| id | file:line | operator | line | checks | triage |\n|---|---|---|---|---|---|\n")
        for m in surv:
            if "checks" not in m:
                continue
            f.write("| %s | %s:%d | %s | `%s` | %s | %s |\n" % (
                m["id"], m["file"].replace("src/", ""), m["line"], m["op"], m["old"].strip().replace("|", "\\|")[:90],
                ", ".join("%s %s" % kv for kv in m["checks"].items()), m.get("triage", "")))
    print("report written")


if __name__ == "__main__":
    cmd = sys.argv[1] if len(sys.argv) > 1 else "report"
    if cmd == "gen":
        phase1(int(sys.argv[2]) if len(sys.argv) > 2 else 2)
    elif cmd == "list":
        ms = enumerate_mutants()
        print(len(ms))
        for m in ms[:: max(1, len(ms) // 40)]:
            print(m["file"], m["line"], m["op"], "|", m["old"].strip()[:70], "=>", m["new"].strip()[:70])
    elif cmd == "retest":
        # forget the recorded results of the given mutants and run them again (after a check was strengthened)
        doc = load()
        for m in doc["mutants"]:
            if m["id"] in sys.argv[2:]:
                if "checks" in m:
                    m.setdefault("earlier", []).append(m.pop("checks"))
        save(doc)
        phase2(10 ** 6)
    elif cmd == "run":
        phase2(int(sys.argv[2]) if len(sys.argv) > 2 else 10 ** 6)
    else:
        report()
