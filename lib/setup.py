#!/usr/bin/env python3
"""MANIFEST.setup_cmd: build the conformance harness (and with it the library) from /repo's working tree.
Uses the same routine as every check (common.build): the main harness binary must build; the parts that call
PRIVATE functions of the crate through cfg(hctl_verif) re-exports (canonisation hook, primitive-level replay)
are optional - if a signature changed they are left out and only the judgements that need them are unavailable."""
import os
import sys

sys.path.insert(0, os.path.dirname(os.path.abspath(__file__)))
import common  # noqa: E402

try:
    t = common.build()
    why = common.build_prims()
    print("harness built in %.0f s%s" % (t, "" if why is None else "; primitive-level replay unavailable: " + why))
except common.ToolError as e:
    print("TOOL-ERROR setup: %s" % e)
    sys.exit(2)
