"""Mode A for the evaluator model (spec/Evaluator.tla via spec/MC_Evaluator.tla): TLC explores the
state machine 'one formula of a batch per step, one shared context' for every batch of a pool on
small networks and checks the design-level invariants.  No implementation code is involved."""
import concurrent.futures
import json
import os
import random

import common
import gen
import semprops
from common import ToolError

# small networks (few tuples: TLC evaluates explicit relations): (id, aeon text, k)
SMALL = [
    ("ma_osc", "a -| b\nb -> a\n$a: !b\n$b: a\n", 2),
    ("ma_param", "a -?? b\nb -?? a\na -?? a\n$a: a | f(b)\n$b: b & a\n", 2),
    ("ma_constrained", "a -> b\nb -| a\n$a: !b | k\n", 1),
    ("ma_steady", "a -?? a\nb -?? b\na -?? b\n$a: a\n$b: a & b\n", 2),
]


def pools_for(pid, rng, m, k, n_batches):
    vars_ = m["vars"]
    out = []
    for _ in range(n_batches):
        if pid in ("C04", "C12", "C14"):
            fg = gen.FormulaGen(rng, vars_, wild=["p"], doms=["d"], patterns=0.15 if pid != "C12" else 0.45, p_quant=0.3,
                                var_names=("x", "y", "z", "xx"), max_nest=k, binary=["and", "or", "EU", "imp"])
            batch = semprops.overlapping_batch(rng, fg, rng.randint(2, 3))
        elif pid == "C13":
            fg = gen.FormulaGen(rng, vars_, binary=["EW", "AW", "and", "EU"], max_nest=k, p_quant=0.15)
            batch = [fg.gen(rng.randint(2, 6))]
        elif pid == "C02":
            fg = gen.FormulaGen(rng, vars_, wild=["p"], doms=["d"], p_dom=0.7, p_quant=0.35, max_nest=k)
            batch = [fg.gen(rng.randint(2, 7))]
        else:
            fg = gen.FormulaGen(rng, vars_, max_nest=k, patterns=0.08, binary=gen.BINARY_BOOL + ["EU", "AU"])
            batch = [fg.gen(rng.randint(2, 7)) for _ in range(rng.choice([1, 1, 2]))]
        batch = [f for f in batch if gen.size(f) <= 12 and gen.depth(f) <= k]
        if batch:
            out.append(batch)
    return out


def preprocess(f, depth=0, env=None):
    """The model works on PREPROCESSED trees (variables named x, xx, ... by depth) -- the renaming
    itself is the business of Scope.tla / C07."""
    env = env or {}
    g = dict(f)
    op = f["op"]
    if op == "var":
        g["v"] = env[f["v"]]
        return g
    if op in ("bind", "exists", "forall"):
        name = "x" * (depth + 1)
        g["v"] = name
        g["a"] = preprocess(f["a"], depth + 1, dict(env, **{f["v"]: name}))
        return g
    if op == "jump":
        g["v"] = env[f["v"]]
    for key in ("a", "b"):
        if key in f and not (op in ("bind", "exists", "forall") and key == "a"):
            g[key] = preprocess(f[key], depth, env)
    return g


def run(pid, tier, seed, wd):
    """Returns (states generated, distinct states, batches explored)."""
    rng = random.Random(seed * 104729 + int(pid[1:]))
    thorough = tier == "thorough"
    nets = common.probe_networks([{"id": i, "model": mdl, "format": "aeon", "k": k} for i, mdl, k in SMALL])
    jobs = []
    for m in nets:
        p = os.path.join(wd, "ma-%s.aeon" % m["id"])
        open(p, "w").write(m["model"])
        desc = json.loads(common.harness(["describe", "aeon", p]))
        ncs = 2 ** (m["n"] + m["pbits"])
        ctx = {"p": sorted(rng.sample(range(ncs), ncs // 2)), "d": sorted(rng.sample(range(ncs), max(1, ncs // 3)))}
        batches = [[preprocess(f) for f in b] for b in pools_for(pid, rng, m, m["k"], 240 if thorough else 24)]
        parts = 3
        for part in range(parts):
            fp = os.path.join(wd, "ma-%s.json" % m["id"])
            json.dump({"net": desc, "ctx": ctx, "batches": batches}, open(fp, "w"))
            jobs.append((m, fp, part, parts, len(batches)))

    def one(job):
        m, fp, part, parts, nb = job
        env = {"NETFILE": fp, "KK": str(m["k"]), "PARTS": str(parts), "PART": str(part)}
        out, rc, wall = common.run_tlc("MC_Evaluator.tla", "MC_Evaluator.cfg", os.path.join(wd, "meta-ma-%s-%d" % (m["id"], part)),
                                       env=env, timeout=3400 if thorough else 900)
        return job, out

    gs = ds = nb_total = 0
    with concurrent.futures.ThreadPoolExecutor(max_workers=common.NPROC) as ex:
        for (m, fp, part, parts, nb), out in ex.map(one, jobs):
            if "No error has been found" not in out:
                raise ToolError("MC_Evaluator: the evaluator model violates an invariant on %s (design-level counterexample):\n%s" % (m["id"], out[-3500:]))
            g, d = common.tlc_counts(out)
            gs += g
            ds += d
            if part == 0:
                nb_total += nb
    return gs, ds, nb_total


# ----------------------------------------------------------------------------- step-level traces
def step_trace_cases(pid, rng, tier):
    """Cases whose calls are traced through the cfg(hctl_verif) hooks (small networks only)."""
    thorough = tier == "thorough"
    nets = common.probe_networks([{"id": i, "model": mdl, "format": "aeon", "k": k} for i, mdl, k in SMALL])
    cases = []
    for m in nets:
        for j, batch in enumerate(pools_for(pid, rng, m, m["k"], 40 if thorough else 8)):
            ext = any(gen.labels(f) for f in batch)
            ctx = {l: semprops.rand_ctx_spec(rng) for l in ("p", "d")} if ext else {}
            c = semprops.call("multi_ext_dirty" if ext else "multi_dirty", batch, m["k"], ctx=ctx)
            c["trace"] = True
            c["trees"] = [preprocess(f) for f in batch]
            cases.append({"id": "%s-t%d" % (m["id"], j), "net": m["id"], "kinds": ["step"], "calls": [c]})
    return nets, cases


DRIFT_RE = None


def run_step_traces(pid, tier, seed, wd):
    """Returns dict(traced, accepted, drift=[(case id, first differing step per call)])."""
    import re
    rng = random.Random(seed * 15485863 + int(pid[1:]))
    nets, cases = step_trace_cases(pid, rng, tier)
    jobs = os.path.join(wd, "step-jobs.json")
    json.dump({"nets": nets, "cases": cases}, open(jobs, "w"))
    common.harness(["sem", jobs, os.path.join(wd, "step-out")], timeout=3600)
    files = [os.path.join(wd, "step-out", n["id"] + ".json") for n in nets]

    def one(i_path):
        i, path = i_path
        return path, common.run_tlc("Trace_Eval.tla", "Trace_Eval.cfg", os.path.join(wd, "meta-step-%d" % i),
                                    env={"CASEFILE": path}, timeout=3000)

    traced = accepted = events = 0
    drift = []
    gs = ds = 0
    with concurrent.futures.ThreadPoolExecutor(max_workers=common.NPROC) as ex:
        for path, (out, rc, wall) in ex.map(one, list(enumerate(files))):
            doc = json.load(open(path))
            found = dict(common.VERDICT_RE.findall(out))
            if len(found) != len(doc["cases"]):
                raise ToolError("Trace_Eval did not judge every traced case of %s:\n%s" % (path, out[-3000:]))
            g, d = common.tlc_counts(out)
            gs += g
            ds += d
            for c in doc["cases"]:
                traced += 1
                events += sum(len(x.get("steps", [])) for x in c["calls"])
                if found[c["id"]].strip().strip('"') == "T":
                    accepted += 1
                else:
                    m = re.search(r'<<\s*"DRIFT",\s*"%s",\s*<<([^>]*)>>' % re.escape(c["id"]), out, re.S)
                    drift.append((c["id"], m.group(1).strip() if m else "?", [x["formulas"] for x in c["calls"]]))
    # the same traces against the action-level cache protocol (Cache.tla through Trace_Cache.tla)
    import cacheprops
    cache = cacheprops.run_cache_traces(files, wd)
    gs += cache["states"]
    ds += cache["distinct"]
    return {"traced": traced, "accepted": accepted, "events": events, "drift": drift, "states": gs, "distinct": ds, "cache": cache}
