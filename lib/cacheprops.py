"""Trace validation of the cache protocol (spec/Cache.tla through spec/Trace_Cache.tla): the hit / miss / save
events of the hooks of eval_node, recorded by the step-level traces of C04 / C12, are consumed by the ACTIONS of
the protocol state machine; the state left by the marking pass is the first record (`dups0`).  A trace without
an accepting behaviour is model drift (NOTE)."""
import json
import os

import common
from common import ToolError


def run_cache_traces(step_files, wd):
    traces = []
    for f in step_files:
        doc = json.load(open(f))
        for c in doc["cases"]:
            for ci, call in enumerate(c["calls"]):
                if "dups0" in call and call.get("outcome") == "ok" and "steps" in call:
                    steps = [{k: v for k, v in s.items() if k != "set"} for s in call["steps"]]
                    for s in steps:
                        if s["e"] == "miss":
                            # does the key denote a quantifier node (then the next `open` is its own)?
                            s["quant"] = s["key"].startswith(("(!{", "(3{", "(V{"))
                    for e in call["dups0"]:
                        # what the key contains about its (at most one) variable: "closed", "" (unrestricted) or the domain label
                        e["kdom"] = "closed" if e["doms"] == "" else e["doms"].split(":", 1)[1]
                    traces.append({"id": "%s.%d" % (c["id"], ci), "dups0": call["dups0"], "steps": steps,
                                   "formulas": call.get("formulas")})
    if not traces:
        raise ToolError("no cache trace recorded (hooks off?)")
    res = {"traces": len(traces), "events": sum(len(t["steps"]) for t in traces),
           "protocol_events": sum(1 for t in traces for s in t["steps"] if s["e"] in ("hit", "miss", "save")),
           "accepted": 0, "drift": [], "states": 0, "distinct": 0}
    size = 40
    for off in range(0, len(traces), size):
        part = traces[off:off + size]
        pth = os.path.join(wd, "cache-traces-%d.json" % off)
        json.dump({"traces": part}, open(pth, "w"))
        out, rc, wall = common.run_tlc("Trace_Cache.tla", "Trace_Cache.cfg", os.path.join(wd, "meta-cache-%d" % off),
                                       env={"CASEFILE": pth}, timeout=1800)
        if "Model checking completed" not in out:
            if "is violated" in out:
                # an invariant of the protocol fails on a behaviour that explains a prefix of a recorded trace
                res["drift"].append(("invariant", out[out.find("is violated") - 200:][:600]))
                continue
            raise ToolError("TLC failed on cache traces:\n" + out[-3000:])
        g, d = common.tlc_counts(out)
        res["states"] += g
        res["distinct"] += d
        found = dict(common.VERDICT_RE.findall(out))
        for t in part:
            if t["id"] in found:
                res["accepted"] += 1
            else:
                res["drift"].append((t["id"], t["formulas"]))
    return res
