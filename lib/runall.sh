#!/bin/bash
# runall.sh [quick|thorough] : run every registered check, print one summary line each
TIER=${1:-quick}
cd "$(dirname "$0")/.."
for i in 01 02 03 04 05 06 07 08 09 10 11 12 13 14 15 16 17 18 19 20; do
  s=$(date +%s)
  out=$(./check C$i --tier $TIER 2>&1); rc=$?
  e=$(date +%s)
  echo "C$i rc=$rc $((e-s))s :: $(echo "$out" | grep -E "^(C$i |VIOLATION|TOOL-ERROR|NOTE|KNOWN)" | tail -2 | tr '\n' ' ' | cut -c1-260)"
done
