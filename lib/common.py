"""Shared plumbing of the check driver: building, running the harness and TLC, parsing TLC's
verdicts, evidence, replay files, known findings.  No judgement is made here: every verdict
is a TLA+ predicate evaluated by TLC; this file only counts and reports them."""
import concurrent.futures
import fcntl
import hashlib
import json
import os
import re
import shutil
import subprocess
import sys
import time

VERIF = os.path.dirname(os.path.dirname(os.path.abspath(__file__)))
REPO = os.environ.get("HCTL_REPO", "/repo")
SPEC = os.path.join(VERIF, "spec")
HARNESS = os.path.join(VERIF, "harness")
HBIN = os.path.join(HARNESS, "target", "release", "hctl-conf")
BIN_DIR = os.path.join(HARNESS, "target", "repo-bins")
WORK = os.path.join(VERIF, "work")
TLA_JAR = "/opt/veriftools/tla/tla2tools.jar:/opt/veriftools/tla/CommunityModules-deps.jar"
NPROC = min(14, os.cpu_count() or 4)


class ToolError(Exception):
    pass


def log(*a):
    print(*a, flush=True)


def sh(cmd, timeout=None, env=None, cwd=None, input=None):
    e = dict(os.environ)
    e.update({"CARGO_NET_OFFLINE": "true"})
    if env:
        e.update(env)
    return subprocess.run(cmd, capture_output=True, text=True, timeout=timeout, env=e, cwd=cwd, input=input)


def build(need_bins=False):
    """(Re)build the harness -- and so the library -- from /repo's current working tree."""
    os.makedirs(WORK, exist_ok=True)
    with open(os.path.join(WORK, ".build.lock"), "w") as lk:
        fcntl.flock(lk, fcntl.LOCK_EX)
        t0 = time.time()
        r = sh(["cargo", "build", "--release", "--offline", "--bin", "hctl-conf"], cwd=HARNESS, timeout=1800)
        if r.returncode != 0 and ("canonization_export" in r.stderr or "get_canonical" in r.stderr):
            # the private canonisation functions changed their signatures: build without the part that calls them
            # (C09's canonical-form judgement becomes unavailable, every other check is unaffected)
            log("NOTE harness built without the canonisation hook (private signatures changed)")
            r = sh(["cargo", "build", "--release", "--offline", "--bin", "hctl-conf", "--no-default-features"], cwd=HARNESS, timeout=1800)
        if r.returncode != 0:
            raise ToolError("harness build failed:\n" + r.stderr[-3000:])
        if need_bins:
            r = sh(["cargo", "build", "--release", "--offline", "--bins", "--manifest-path",
                    os.path.join(REPO, "Cargo.toml"), "--target-dir", BIN_DIR], timeout=1800)
            if r.returncode != 0:
                raise ToolError("repository binaries build failed:\n" + r.stderr[-3000:])
        return time.time() - t0


PRIMS_BIN = os.path.join(HARNESS, "target", "release", "hctl-prims")


def build_prims():
    """The primitive-level harness is a separate binary: it calls PRIVATE functions of the crate through the
    cfg(hctl_verif) re-export, so it stops compiling when one of their signatures changes.  Returns None when
    it was built, else the compiler's message (the caller reports the replay as unavailable, nothing else fails)."""
    with open(os.path.join(WORK, ".build.lock"), "w") as lk:
        fcntl.flock(lk, fcntl.LOCK_EX)
        r = sh(["cargo", "build", "--release", "--offline", "--bin", "hctl-prims"], cwd=HARNESS, timeout=1800)
        if r.returncode != 0:
            errs = [l for l in r.stderr.splitlines() if l.startswith("error")]
            return (errs[0] if errs else r.stderr[-300:])[:300]
    return None


def workdir(name):
    d = os.path.join(WORK, name)
    shutil.rmtree(d, ignore_errors=True)
    os.makedirs(d)
    return d


def harness(args, timeout=3600, input=None):
    r = sh([HBIN] + args, timeout=timeout, input=input)
    if r.returncode != 0:
        raise ToolError("harness %s failed: %s" % (args[0], (r.stderr or r.stdout)[-2000:]))
    return r.stdout


def probe_networks(models):
    """models: list of dict(id, model, format). Returns those the library loads with a
    non-empty unit set, annotated with n / pbits / colours (filtering only)."""
    os.makedirs(WORK, exist_ok=True)
    d = os.path.join(WORK, "probe-%d.json" % os.getpid())
    with open(d, "w") as f:
        json.dump(models, f)
    out = json.loads(harness(["probe", d]))
    os.remove(d)
    info = {o["id"]: o for o in out}
    keep = []
    for m in models:
        o = info.get(m["id"], {})
        if o.get("ok") and o.get("colours", 0) >= 1:
            m = dict(m)
            m.update(n=o["n"], pbits=o["pbits"], colours=int(o["colours"]), vars=o["vars"])
            keep.append(m)
    return keep


# ----------------------------------------------------------------------------- TLC
def tlc_cmd(module, cfg, metadir, workers=1, xmx="3g", extra=()):
    return ["java", "-XX:+UseParallelGC", "-Xmx" + xmx, "-Xss1g", "-cp", TLA_JAR, "tlc2.TLC",
            "-workers", str(workers), "-config", os.path.join(SPEC, cfg), "-metadir", metadir,
            "-noGenerateSpecTE", *extra, os.path.join(SPEC, module)]


def run_tlc(module, cfg, metadir, env=None, workers=1, timeout=1800, xmx="3g", extra=()):
    t0 = time.time()
    try:
        r = sh(tlc_cmd(module, cfg, metadir, workers, xmx, extra), timeout=timeout, env=env, cwd=SPEC)
    except subprocess.TimeoutExpired:
        raise ToolError("TLC timed out after %ss on %s %s" % (timeout, module, env))
    shutil.rmtree(metadir, ignore_errors=True)
    out = r.stdout
    return out, r.returncode, time.time() - t0


STATES_RE = re.compile(r"(\d+) states generated, (\d+) distinct states found")


def tlc_counts(out):
    m = STATES_RE.findall(out)
    if not m:
        return 0, 0
    g, d = m[-1]
    return int(g), int(d)


def tlc_failed(out):
    """TLC-level failure (parse error, evaluation error, invariant 'violated' because the
    verdict operator could not be evaluated...)."""
    if "Error:" in out or "error:" in out.lower() and "Finished" not in out:
        return True
    return "Model checking completed" not in out and "Finished computing initial states" not in out


VERDICT_RE = re.compile(r'<<\s*"VERDICT",\s*"([^"]*)",\s*<<([^>]*)>>\s*>>', re.S)
UNIT_RE = re.compile(r'<<\s*"UNITCHECK",\s*"([^"]*)",\s*"([TF])",\s*(\d+),\s*(\d+)\s*>>', re.S)


def judge_sem(casefiles, timeout=1800):
    """Run Trace_Sem over each case file (one TLC process per network, in parallel).
    Returns (verdicts: {case id: [T/F/NA...]}, stats)."""
    verdicts = {}
    stats = {"states": 0, "distinct": 0, "tlc_runs": 0, "tlc_wall": 0.0, "unit_mismatch": []}

    def one(i_path):
        i, path = i_path
        meta = os.path.join(os.path.dirname(path), "meta-%d" % i)
        return path, run_tlc("Trace_Sem.tla", "Trace_Sem.cfg", meta, env={"CASEFILE": path}, timeout=timeout)

    with concurrent.futures.ThreadPoolExecutor(max_workers=NPROC) as ex:
        for path, (out, rc, wall) in ex.map(one, list(enumerate(casefiles))):
            stats["tlc_runs"] += 1
            stats["tlc_wall"] += wall
            g, d = tlc_counts(out)
            stats["states"] += g
            stats["distinct"] += d
            n_expected = len(json.load(open(path))["cases"])
            found = VERDICT_RE.findall(out)
            if len(found) != n_expected or not UNIT_RE.search(out):
                raise ToolError("TLC did not judge every case of %s (%d of %d):\n%s" % (path, len(found), n_expected, out[-3000:]))
            u = UNIT_RE.search(out)
            if u.group(2) != "T":
                stats["unit_mismatch"].append(path)
            for cid, vs in found:
                verdicts[cid] = [x.strip().strip('"') for x in vs.split(",")] if vs.strip() else []
    return verdicts, stats


def judge_events(module, cfg, events_doc_list, workdir_, key="events", timeout=1800):
    """Run a Trace_* judge over several event documents in parallel (one TLC process each).
    Each document is a dict holding a list under `key` whose items carry `id` and `kinds`."""
    verdicts = {}
    stats = {"states": 0, "distinct": 0, "tlc_runs": 0, "tlc_wall": 0.0}
    paths = []
    for i, doc in enumerate(events_doc_list):
        pth = os.path.join(workdir_, "%s-%d.json" % (module.split(".")[0], i))
        with open(pth, "w") as f:
            json.dump(doc, f)
        paths.append((i, pth, len(doc[key])))

    def one(x):
        i, pth, n = x
        meta = os.path.join(workdir_, "meta-%s-%d" % (module.split(".")[0], i))
        return pth, n, run_tlc(module, cfg, meta, env={"CASEFILE": pth}, timeout=timeout)

    with concurrent.futures.ThreadPoolExecutor(max_workers=NPROC) as ex:
        for pth, n, (out, rc, wall) in ex.map(one, paths):
            stats["tlc_runs"] += 1
            stats["tlc_wall"] += wall
            g, d = tlc_counts(out)
            stats["states"] += g
            stats["distinct"] += d
            found = VERDICT_RE.findall(out)
            if len(found) != n:
                raise ToolError("TLC did not judge every event of %s (%d of %d):\n%s" % (pth, len(found), n, out[-3000:]))
            for cid, vs in found:
                verdicts[cid] = [x.strip().strip('"') for x in vs.split(",")] if vs.strip() else []
    return verdicts, stats


def mode_a(module, cfg, wd, env=None, timeout=3400, workers=4, what=""):
    """Run an MC_* module; a failure is a tool error carrying TLC's counterexample. Returns (generated, distinct)."""
    out, rc, wall = run_tlc(module, cfg, os.path.join(wd, "meta-" + module.split(".")[0]), env=env, timeout=timeout, workers=workers, xmx="6g")
    if "No error has been found" not in out:
        raise ToolError("%s: design-level check failed%s:\n%s" % (module, (" (" + what + ")") if what else "", out[-3000:]))
    return tlc_counts(out)


def chunks(lst, n):
    return [lst[i:i + n] for i in range(0, len(lst), n)]


# ----------------------------------------------------------------------------- reporting
def load_known():
    p = os.path.join(VERIF, "known_findings.json")
    if not os.path.exists(p):
        return []
    return json.load(open(p)).get("findings", [])


def write_replay(pid, payload):
    os.makedirs(os.path.join(VERIF, "replays"), exist_ok=True)
    text = json.dumps(payload, indent=1, sort_keys=True)
    h = hashlib.sha1(text.encode()).hexdigest()[:12]
    path = os.path.join(VERIF, "replays", "%s-%s.json" % (pid, h))
    with open(path, "w") as f:
        f.write(text)
    return path


def write_evidence(pid, tier, seed, level, coverage, wall, violations, assumptions):
    os.makedirs(os.path.join(VERIF, "evidence"), exist_ok=True)
    ev = {"property_id": pid, "tier": tier, "seed": int(seed), "level": level, "coverage": coverage,
          "assumptions": assumptions, "wall_s": round(wall, 2), "violations": int(violations)}
    with open(os.path.join(VERIF, "evidence", pid + ".json"), "w") as f:
        json.dump(ev, f, indent=1)
    return ev
