#!/bin/bash
# confirm_seed.sh <ID> [<out-dir>] : confirm a sub-agent's seeded change in its scratch worktree /tmp/mut/<ID>:
#   (DEMO_RUSTFLAGS: flags for building the demonstration only, e.g. "--cfg hctl_verif")
#   with the change: the 55 existing tests pass and the demonstration fails; without it: the demonstration passes.
ID=$1; OUT=${2:-/tmp/mut${ROUND:-}/$ID-out}; WT=/tmp/mut${ROUND:-}/$ID; export CARGO_TARGET_DIR=/tmp/mut${ROUND:-}/$ID-target CARGO_NET_OFFLINE=true
cd $WT || exit 2
git checkout -q -- . ; git clean -fdq tests 2>/dev/null
git apply $OUT/patch.diff || { echo "CONFIRM $ID: patch does not apply"; exit 2; }
mkdir -p tests; cp $OUT/demo/*.rs tests/ 2>/dev/null
DEMO=$(ls $OUT/demo/*.rs 2>/dev/null | head -1 | xargs -n1 basename | sed 's/\.rs$//')
cargo test --offline --lib --bins 2>&1 | grep -E "^test result" > $OUT/confirm_suite.txt
SUITE=$(grep -c "55 passed; 0 failed" $OUT/confirm_suite.txt)
RUSTFLAGS="${DEMO_RUSTFLAGS:-}" cargo test --offline --test $DEMO > $OUT/confirm_demo_with.txt 2>&1; WITH=$?
git apply -R $OUT/patch.diff
RUSTFLAGS="${DEMO_RUSTFLAGS:-}" cargo test --offline --test $DEMO > $OUT/confirm_demo_without.txt 2>&1; WITHOUT=$?
rm -rf tests/$DEMO.rs; rmdir tests 2>/dev/null; git checkout -q -- . ; rm -rf $CARGO_TARGET_DIR
echo "CONFIRM $ID: suite_55_pass=$SUITE demo_with_change_exit=$WITH demo_without_change_exit=$WITHOUT"
[ "$SUITE" = "1" ] && [ "$WITH" != "0" ] && [ "$WITHOUT" = "0" ]
