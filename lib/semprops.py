"""Case generators for the properties decided by spec/Trace_Sem.tla (API-level trace validation
against the reference semantics).  Each generator returns (nets, cases, judged_kinds):
`judged_kinds` are the Trace_Sem judgements whose failure is a violation of THIS property."""
import copy
import itertools
import random

import gen
from gen import T, F, P, V, W, U, B, H

# hand-written networks that exercise what no repository test contains: regulation constraints
# that exclude colours, explicit uninterpreted functions, zero-arity parameters, inputs
FIXED_NETS = [
    ("fx_constrained", "a -> b\nb -| a\n"),
    ("fx_free2", "a -?? b\nb -?? a\na -?? a\n"),
    ("fx_explicit", "a -> b\nb -?? a\n$a: f(b)\n$b: a | k\n"),
    ("fx_mixed3", "a -> b\nb -| c\nc -? a\na -?? c\n$b: a\n"),
    ("fx_nosteady", "a -| b\nb -> a\n$a: b\n$b: !a\n"),
    ("fx_input", "a -> b\n$b: a & i\n"),
    ("fx_two_fn", "a -?? b\nb -?? a\n$a: f(b) & !g(b)\n$b: g(a) | a\n"),
]


def fixed_nets():
    return [{"id": i, "model": m, "format": "aeon"} for i, m in FIXED_NETS]


def network_pool(rng, probe, sizes, max_pbits=4, want_constrained=0):
    """sizes: list of n (one attempt budget each). Returns probed networks."""
    models = []
    for j, n in enumerate(sizes):
        for attempt in range(6):
            models.append({"id": "r%d_%d" % (j, attempt), "model": gen.rand_network(rng, n, max_pbits), "format": "aeon", "slot": j})
    ok = probe(models)
    out, seen = [], set()
    for m in ok:
        if m["slot"] in seen:
            continue
        if m["n"] + m["pbits"] > 9:
            continue
        seen.add(m["slot"])
        out.append(m)
    return out


def k_for(f, extra=0):
    return max(gen.depth(f), 0) + extra


def call(api, f_list, k, ids=None, ctx=None, progress=False, **kw):
    c = {"api": api, "k": k, "formulas": [gen.render(f) for f in f_list], "asts": f_list,
         "ids": ids or list(range(1, len(f_list) + 1)), "ctx": ctx or {}}
    if progress:
        c["progress"] = True
    c.update(kw)
    return c


def rand_ctx_spec(rng, inside_unit=True):
    x = rng.random()
    if x < 0.12:
        return {"t": "empty"}
    if x < 0.22:
        return {"t": "unit"}
    spec = {"t": "rand", "seed": rng.randrange(1 << 30), "num": rng.choice([1, 1, 2, 3]), "den": 4,
            "unit": inside_unit}
    if rng.random() < 0.45:
        spec["cmask"] = 1
    return spec


def closed_subformulas(f):
    out = []
    for g in gen.subformulas(f):
        if not gen.free_vars(g) and g["op"] not in ("true", "false", "prop", "wild", "var"):
            out.append(g)
    return out


# ----------------------------------------------------------------------------- structured families
def permuted_roles(rng, fg, nvars=2):
    """A closed formula in which one open sub-formula occurs several times, at the same height, with
    its variables in permuted roles:  Q{x}: Q{y}: (B(x, y) op B(y, x))  -- the shape on which a cache
    keyed on canonical text must rename more than one variable at once."""
    names = ["x", "y", "z"][:nvars]
    body = None
    for _ in range(20):
        body = fg.gen(rng.randint(3, 7), scope=names)
        if gen.free_vars(body) >= set(names):
            break
    perms = list(itertools.permutations(names))
    rng.shuffle(perms)
    parts = [gen.alpha_rename(copy.deepcopy(body), dict(zip(names, p_))) for p_ in perms[:rng.randint(2, min(3, len(perms)))]]
    f = parts[0]
    for p_ in parts[1:]:
        f = B(rng.choice(["and", "or", "imp", "xor"]), f, p_)
    if rng.random() < 0.5:
        f = B("and", f, H("jump", names[0], U("not", V(names[-1]))))
    for v in reversed(names):
        f = H(rng.choice(["exists", "bind", "forall", "exists"]), v, f)
    return f


def same_body_under_scopes(rng, fg, labels=("", "d", "e"), closed_body=None):
    """Several formulae that evaluate ONE sub-formula under different stacks of (restricted) quantifier
    scopes -- including nested quantifiers that share a domain label, and the same stack with one
    restriction removed.  The body mentions only the innermost variable (or is closed)."""
    inner = "v"
    body = closed_body if closed_body is not None else fg.gen(rng.randint(2, 5), scope=[inner])
    out = []
    outer_names = ["x", "y"]
    for _ in range(rng.randint(2, 4)):
        depth_ = rng.randint(1, 3) if closed_body is None else rng.randint(1, 2)
        f = copy.deepcopy(body)
        if closed_body is None:
            q = rng.choice(["exists", "bind", "forall"])
            f = H(q, inner, f if rng.random() < 0.6 else B("and", f, V(inner)), rng.choice(labels))
            depth_ -= 1
        for name in outer_names[:depth_]:
            dom = rng.choice(labels)
            q = rng.choice(["bind", "exists", "forall"])
            glue = rng.choice(["and", "or"])
            f = H(q, name, B(glue, f, rng.choice([V(name), U("not", V(name)), U("EX", V(name))])) if rng.random() < 0.7 else f, dom)
        if rng.random() < 0.3:
            f = U(rng.choice(["EX", "AG", "not"]), f)
        out.append(f)
    return out


def twin_under_binders(rng, vars_):
    """ONE open sub-formula TEXT twice at the same quantifier depth under the same binder names in PERMUTED order
    (user-chosen names, so the library's renaming pass gives the occurrences different internal names)."""
    names = ["a1", "b1", "x", "xx", "y", "s"]
    k = rng.choice([2, 2, 3])
    vs = rng.sample(names, k)
    bg = gen.FormulaGen(rng, vars_, p_quant=0.0, quant=[], p_jump=0.3, unary=["not", "EX", "AX", "EF", "AG"], binary=["and", "or", "EU"])
    body = bg.gen(rng.randint(1, 4), scope=list(vs))
    for _ in range(10):
        if len(gen.free_vars(body)) >= 1:
            break
        body = bg.gen(rng.randint(1, 4), scope=list(vs))
    parts = []
    for occ in range(2):
        order = list(vs)
        if occ:
            while order == vs:
                rng.shuffle(order)
        f = copy.deepcopy(body)
        for v in order:
            f = H(rng.choice(["exists", "bind", "forall"]), v, f)
        parts.append(f)
    return B(rng.choice(["and", "or", "imp", "EU"]), parts[0], parts[1])


def repeat_next_to_colourful(rng, vars_):
    """One closed sub-formula S first as the RIGHT operand of a conjunction whose left operand holds in some colours
    only, then again elsewhere: what is computed (and possibly cached) for S must not depend on its neighbour."""
    small = gen.FormulaGen(rng, vars_, p_quant=0.0, quant=[], unary=["not", "EX", "EF", "AG", "AF"], binary=["and", "or", "EU"])
    S = small.gen(rng.randint(2, 4))
    colourful = lambda: rng.choice([H("bind", "x", U("AX", V("x"))), H("bind", "x", U("AG", U("EF", V("x")))),
                                    U("EF", small.gen(2)), U("AG", small.gen(2)), H("exists", "x", H("jump", "x", U("AX", V("x"))))])
    second = rng.choice([copy.deepcopy(S), U("not", copy.deepcopy(S)), U("EX", copy.deepcopy(S)), B("or", copy.deepcopy(S), small.gen(2))])
    return B(rng.choice(["or", "and", "imp"]), B("and", colourful(), S),
             B(rng.choice(["and", "or"]), colourful(), second) if rng.random() < 0.6 else second)


def nested_same_label(rng, vars_):
    """Batches in which a sub-formula over the INNER variable of two nested quantifiers is shared between a stack whose
    quantifiers carry the SAME domain label and a stack where only the inner one is restricted (or the outer one by
    another label); the outer variable is used, so that a restriction leaking from one stack into the other shows."""
    bg = gen.FormulaGen(rng, vars_, wild=["p"], p_wild=0.2, p_quant=0.0, quant=[], p_jump=0.0, unary=["not", "EX", "AX", "EF", "AG"], binary=["and", "or", "EU"])
    body = U(rng.choice(["EX", "AX", "EF"]), V("y")) if rng.random() < 0.5 else bg.gen(rng.randint(2, 4), scope=["y"])
    for _ in range(10):
        if "y" in gen.free_vars(body):
            break
        body = bg.gen(rng.randint(2, 4), scope=["y"])
    q2 = rng.choice(["exists", "bind", "forall"])

    def stack(outer_dom):
        inner = H(q2, "y", copy.deepcopy(body), "d")
        use_x = rng.choice([V("x"), U("not", V("x")), U("EX", V("x")), H("jump", "x", P(rng.choice(vars_)))])
        return H(rng.choice(["bind", "exists", "forall"]), "x", B(rng.choice(["and", "or"]), inner, use_x), outer_dom)
    same, other = stack("d"), stack(rng.choice(["", "", "e"]))
    batch = [same, other]
    if rng.random() < 0.3:
        batch.reverse()
    if rng.random() < 0.4:
        batch.append(B(rng.choice(["and", "or"]), copy.deepcopy(batch[0]), copy.deepcopy(batch[1])))
    return batch


def until_over_literals(rng, vars_):
    """phi U psi with phi, psi small Boolean combinations of literals whose supports differ: paths that
    must LEAVE phi through one particular variable to reach psi (and variants under EX / binders)."""
    def lit():
        v = P(rng.choice(vars_))
        return v if rng.random() < 0.5 else U("not", v)

    def small():
        x = rng.random()
        if x < 0.5:
            return lit()
        return B(rng.choice(["and", "or"]), lit(), lit())
    a = small()
    b = U("not", a) if rng.random() < 0.3 else small()
    f = B(rng.choice(["EU", "EU", "AU", "EW", "AW"]), a, b)
    x = rng.random()
    if x < 0.25:
        f = U(rng.choice(["EX", "AX", "not", "EF"]), f)
    elif x < 0.4:
        f = H("bind", "x", U("EX", B("EU", U("not", V("x")), V("x"))))
    elif x < 0.5:
        f = B(rng.choice(["and", "or"]), f, small())
    return f


# ----------------------------------------------------------------------------- C01
def gen_c01(rng, probe, tier):
    thorough = tier == "thorough"
    sizes = [2] * (8 if thorough else 4) + [3] * (8 if thorough else 3) + ([4] * 3 if thorough else [])
    nets = probe(fixed_nets()) + network_pool(rng, probe, sizes)
    cases = []
    per_net = 60 if thorough else 22
    apis = ["formula", "formula_dirty", "tree", "tree_dirty", "multi", "multi_trees_dirty"]
    for m in nets:
        fg = gen.FormulaGen(rng, m["vars"], patterns=0.05, max_nest=3 if m["n"] <= 3 else 2)
        for j in range(per_net):
            if j % 6 == 5 and m["n"] <= 3:
                f = permuted_roles(rng, gen.FormulaGen(rng, m["vars"], p_quant=0.0, quant=[], p_jump=0.2,
                                                       unary=["not", "EX", "AX", "EF", "AG"], binary=["and", "or", "EU"]),
                                   nvars=rng.choice([2, 2, 3]) if m["n"] == 2 else 2)
            elif j % 6 == 2:
                f = until_over_literals(rng, m["vars"])
            elif j % 6 == 4 and m["n"] <= 3:
                f = twin_under_binders(rng, m["vars"])
            else:
                f = fg.gen(rng.randint(2, 12 if m["n"] <= 3 else 8))
            k = k_for(f)
            calls = [call(rng.choice(apis), [f], k)]
            # every closed sub-formula on its own as well
            subs = closed_subformulas(f)[1:4]
            for g in subs:
                calls.append(call(rng.choice(apis), [g], k_for(g)))
            cases.append({"id": "%s-%d" % (m["id"], j), "net": m["id"], "kinds": ["denote"], "calls": calls})
    return nets, cases, ["denote"]


# ----------------------------------------------------------------------------- C13
def gen_c13(rng, probe, tier):
    thorough = tier == "thorough"
    sizes = [2] * (6 if thorough else 3) + [3] * (6 if thorough else 3) + ([4] * 2 if thorough else [])
    nets = probe(fixed_nets()) + network_pool(rng, probe, sizes)
    cases = []
    per_net = 40 if thorough else 14
    for m in nets:
        fg = gen.FormulaGen(rng, m["vars"], binary=["EW", "AW", "EW", "AW", "and", "or", "EU"], p_quant=0.15)
        small = gen.FormulaGen(rng, m["vars"], binary=["and", "or"], unary=["not", "EX", "AG", "EF"], p_quant=0.1)
        for j in range(per_net):
            f = fg.gen(rng.randint(3, 9))
            cases.append({"id": "%s-w%d" % (m["id"], j), "net": m["id"], "kinds": ["denote"],
                          "calls": [call(rng.choice(["formula", "formula_dirty"]), [f], k_for(f))]})
        for j in range(per_net // 2):
            a, b = small.gen(rng.randint(1, 4)), small.gen(rng.randint(1, 4))
            ew, aw = B("EW", a, b), B("AW", a, b)
            ew_def = B("or", B("EU", a, b), U("EG", a))
            aw_def = U("not", B("EU", U("not", b), B("and", U("not", a), U("not", b))))
            k = max(k_for(a), k_for(b))
            cases.append({"id": "%s-d%d" % (m["id"], j), "net": m["id"], "kinds": ["equal", "denote"], "calls": [
                call("multi_dirty", [ew, ew_def, aw, aw_def, B("imp", b, ew), B("imp", b, aw), T()], k,
                     ids=[1, 1, 2, 2, 3, 3, 3])]})
    return nets, cases, ["denote", "equal"]


# ----------------------------------------------------------------------------- C02
def ext_formula_gen(rng, m, **kw):
    return gen.FormulaGen(rng, m["vars"], wild=["p", "q"], doms=["d", "e"], p_dom=0.6, p_quant=0.3, **kw)


def gen_c02(rng, probe, tier):
    thorough = tier == "thorough"
    sizes = [2] * (6 if thorough else 3) + [3] * (6 if thorough else 3)
    nets = probe(fixed_nets()) + network_pool(rng, probe, sizes)
    cases = []
    per_net = 50 if thorough else 16
    for m in nets:
        fg = ext_formula_gen(rng, m)
        body_gen = gen.FormulaGen(rng, m["vars"], wild=["p"], var_names=("y", "z"), p_quant=0.15)
        for j in range(per_net):
            f = fg.gen(rng.randint(2, 10))
            ctx = {l: rand_ctx_spec(rng) for l in ("p", "q", "d", "e")}
            cases.append({"id": "%s-x%d" % (m["id"], j), "net": m["id"], "kinds": ["denote"],
                          "calls": [call(rng.choice(["ext", "ext_dirty", "multi_ext", "multi_ext_dirty"]), [f], k_for(f), ctx=ctx)]})
        # the three README equivalences, for arbitrary bodies
        for j in range(per_net // 2):
            body = body_gen.gen(rng.randint(1, 7), scope=["x"])
            ctx = {l: rand_ctx_spec(rng) for l in ("p", "A")}
            eqs = [
                (H("bind", "x", body, "A"), H("bind", "x", B("and", W("A"), body))),
                (H("exists", "x", H("jump", "x", body), "A"), H("exists", "x", H("jump", "x", B("and", W("A"), body)))),
                (H("forall", "x", H("jump", "x", body), "A"), H("forall", "x", H("jump", "x", B("imp", W("A"), body)))),
            ]
            calls = []
            for i, (l, r) in enumerate(eqs):
                k = max(k_for(l), k_for(r))
                calls.append(call("ext_dirty", [l], k, ids=[i + 1], ctx=ctx))
                calls.append(call("ext_dirty", [r], k, ids=[i + 1], ctx=ctx))
            cases.append({"id": "%s-r%d" % (m["id"], j), "net": m["id"], "kinds": ["denote", "equal"], "calls": calls})
        # one closed sub-formula under several quantifiers with DIFFERENT domains inside one formula
        # (sibling scopes): each occurrence must see its own domain
        closed_gen = gen.FormulaGen(rng, m["vars"], wild=["p"], p_quant=0.0, quant=[], p_jump=0.0, unary=["not", "EX", "AX", "EF", "AG"], binary=["and", "or", "EU"])
        for j in range(per_net):
            body = closed_gen.gen(rng.randint(2, 4))
            if j % 2 == 1:
                # an OPEN shared sub-formula (it mentions the quantified variable): fetched from the cache it has
                # to be renamed when the occurrences sit at different nesting depths
                for _ in range(10):
                    body = closed_gen.gen(rng.randint(2, 4), scope=["x"])
                    if "x" in gen.free_vars(body):
                        break
            parts = []
            for _ in range(rng.randint(2, 3)):
                q = rng.choice(["exists", "forall", "bind"])
                dom = rng.choice(["d", "e", "A", ""])
                inner = copy.deepcopy(body)
                x = rng.random()
                if x < 0.5:
                    inner = H("jump", "x", inner)
                elif x < 0.75:
                    inner = B(rng.choice(["and", "or"]), inner, V("x"))
                part = H(q, "x", inner, dom)
                if rng.random() < 0.6:
                    # one more (restricted) quantifier around this occurrence: the shared sub-formula is then
                    # used at a different nesting depth, i.e. under a different internal variable name
                    part = H(rng.choice(["bind", "exists", "forall"]), "u",
                             part if rng.random() < 0.5 else B(rng.choice(["and", "or"]), part, V("u")), rng.choice(["d", "e", "A", ""]))
                parts.append(part)
            f = parts[0]
            for p_ in parts[1:]:
                f = B(rng.choice(["and", "or", "imp"]), f, p_)
            ctx = {l: rand_ctx_spec(rng) for l in ("p", "d", "e", "A")}
            cases.append({"id": "%s-s%d" % (m["id"], j), "net": m["id"], "kinds": ["denote"],
                          "calls": [call(rng.choice(["ext", "ext_dirty"]), [f], k_for(f), ctx=ctx),
                                    call("multi_ext_dirty", parts, k_for(f), ctx=ctx)]})
        # empty domains: exists false, forall true
        for j in range(3):
            body = body_gen.gen(rng.randint(1, 5), scope=["x"])
            ctx = {"p": rand_ctx_spec(rng), "A": {"t": "empty"}}
            calls = [call("ext", [H(q, "x", body, "A")], 1 + k_for(body), ctx=ctx) for q in ("exists", "forall", "bind")]
            cases.append({"id": "%s-e%d" % (m["id"], j), "net": m["id"], "kinds": ["denote"], "calls": calls})
    return nets, cases, ["denote", "equal"]


# ----------------------------------------------------------------------------- C03
def gen_c03(rng, probe, tier):
    thorough = tier == "thorough"
    sizes = [2] * (10 if thorough else 5) + [3] * (10 if thorough else 4)
    pool = probe(fixed_nets()) + network_pool(rng, probe, sizes)
    # prefer networks whose constraints exclude colours
    nets = [m for m in pool if m["colours"] < 2 ** m["pbits"]] or pool
    cases = []
    per_net = 50 if thorough else 18
    for m in nets:
        fg = gen.FormulaGen(rng, m["vars"], binary=gen.BINARY_BOOL + gen.BINARY_TEMP, patterns=0.08)
        xg = ext_formula_gen(rng, m, patterns=0.08)
        for j in range(per_net):
            f = fg.gen(rng.randint(1, 9))
            api = rng.choice(["formula", "formula_dirty", "tree_dirty", "unsafe_ex", "multi_dirty"])
            calls = [call(api, [f], k_for(f, rng.choice([0, 0, 1])))]
            g = xg.gen(rng.randint(1, 9))
            ctx = {l: rand_ctx_spec(rng) for l in ("p", "q", "d", "e")}
            calls.append(call(rng.choice(["ext", "ext_dirty", "multi_ext_dirty"]), [g], k_for(g), ctx=ctx))
            fs = [fg.gen(rng.randint(1, 6)) for _ in range(rng.randint(2, 3))]
            calls.append(call("multi_dirty", fs, max(k_for(x) for x in fs)))
            cases.append({"id": "%s-u%d" % (m["id"], j), "net": m["id"], "kinds": ["unit"], "calls": calls})
        # one closed sub-formula inside a domain-restricted quantifier AND outside it (either order, in one
        # formula or across a batch): the occurrence outside must not inherit the restriction of the variable
        # copies (raw entry points; "for a closed formula the returned set does not depend on the symbolic
        # variables that encode HCTL state variables")
        closed_gen = gen.FormulaGen(rng, m["vars"], wild=["p"], p_quant=0.0, quant=[], p_jump=0.0,
                                    unary=["not", "EX", "AX", "EF", "AG", "AF"], binary=["and", "or", "EU", "imp"])
        for j in range(per_net // 2):
            body = closed_gen.gen(rng.randint(2, 4))
            inner = copy.deepcopy(body)
            x = rng.random()
            if x < 0.5:
                inner = H("jump", "x", inner)
            elif x < 0.8:
                inner = B(rng.choice(["and", "or"]), inner, V("x"))
            scoped = H(rng.choice(["exists", "forall", "bind"]), "x", inner, rng.choice(["d", "d", "e"]))
            if rng.random() < 0.4:
                scoped = H(rng.choice(["exists", "forall", "bind"]), "u", B(rng.choice(["and", "or"]), scoped, V("u")), rng.choice(["d", "e", ""]))
            pair = [scoped, copy.deepcopy(body)]
            if rng.random() < 0.3:
                pair.reverse()
            f = B(rng.choice(["and", "or", "imp"]), pair[0], pair[1])
            ctx = {l: rand_ctx_spec(rng) for l in ("p", "d", "e")}
            k = k_for(f)
            cases.append({"id": "%s-s%d" % (m["id"], j), "net": m["id"], "kinds": ["unit"], "calls": [
                call("ext_dirty", [f], k, ctx=ctx), call("multi_ext_dirty", pair, k, ctx=ctx)]})
    return nets, cases, ["unit"]


# ----------------------------------------------------------------------------- C04
def overlapping_batch(rng, fg, size):
    """Formulae built to share sub-formulae up to renaming, inside and outside scopes."""
    shared = [fg.gen(rng.randint(2, 5)) for _ in range(2)]
    shared_open = fg.gen(rng.randint(2, 4), scope=["x"])
    out = []
    for _ in range(size):
        parts = []
        for _ in range(rng.randint(1, 3)):
            x = rng.random()
            if x < 0.4:
                parts.append(copy.deepcopy(rng.choice(shared)))
            elif x < 0.75:
                bound = {g["v"] for g in gen.subformulas(shared_open) if g["op"] in gen.QUANT}
                v = rng.choice([n for n in ["x", "y", "zz", "xx", "u", "w1"] if n not in bound])
                body = gen.alpha_rename(copy.deepcopy(shared_open), {"x": v})
                q = rng.choice(["bind", "exists", "forall"])
                dom = rng.choice(fg.doms) if fg.doms and rng.random() < 0.5 else ""
                parts.append(H(q, v, body, dom))
            else:
                parts.append(fg.gen(rng.randint(1, 5)))
        f = parts[0]
        for p_ in parts[1:]:
            f = B(rng.choice(["and", "or", "imp", "EU"]), f, p_)
        if rng.random() < 0.3:
            f = U(rng.choice(["not", "EX", "AG"]), f)
        out.append(f)
    return out


def gen_c04(rng, probe, tier):
    thorough = tier == "thorough"
    sizes = [2] * (6 if thorough else 3) + [3] * (6 if thorough else 3)
    nets = probe(fixed_nets()) + network_pool(rng, probe, sizes)
    cases = []
    per_net = 30 if thorough else 10
    for m in nets:
        for j in range(per_net):
            ext = rng.random() < 0.5
            fg = (ext_formula_gen(rng, m, patterns=0.1, var_names=("x", "y", "z", "xx", "zz"))
                  if ext else gen.FormulaGen(rng, m["vars"], patterns=0.1, var_names=("x", "y", "z", "xx", "zz")))
            shape = j % 4
            if shape == 1 and ext:
                batch = same_body_under_scopes(rng, gen.FormulaGen(rng, m["vars"], wild=["p"], p_quant=0.0, quant=[], p_jump=0.0,
                                                                   unary=["not", "EX", "AX", "EF", "AG"], binary=["and", "or", "EU"]))
            elif shape == 2 and ext:
                pat = rng.choice([H("bind", "w", U("AG", U("EF", V("w")))), H("bind", "w", U("AX", V("w"))), U("EF", P(m["vars"][0]))])
                batch = same_body_under_scopes(rng, None, closed_body=pat)
            elif shape == 3:
                base = gen.FormulaGen(rng, m["vars"], p_quant=0.0, quant=[], p_jump=0.2, unary=["not", "EX", "AX", "EF", "AG"], binary=["and", "or", "EU"])
                batch = [permuted_roles(rng, base, 2) for _ in range(rng.randint(1, 2))]
                if rng.random() < 0.5:
                    batch.append(fg.gen(rng.randint(2, 6)))
            elif j % 8 in (4, 6):
                ext = True
                batch = nested_same_label(rng, m["vars"])
            elif j % 8 == 0:
                # a closed sub-formula next to a colour-dependent conjunct and again on its own (in the formula and in the batch)
                f0 = repeat_next_to_colourful(rng, m["vars"])
                batch = [f0, copy.deepcopy(f0["a"]["b"])] + ([repeat_next_to_colourful(rng, m["vars"])] if rng.random() < 0.5 else [])
            else:
                batch = overlapping_batch(rng, fg, rng.randint(2, 4))
            ctx = {l: rand_ctx_spec(rng) for l in ("p", "q", "d", "e")} if ext else {}
            k = max(k_for(f) for f in batch)
            ids = list(range(1, len(batch) + 1))
            multi = "multi_ext_dirty" if ext else "multi_dirty"
            single = "ext_dirty" if ext else "formula_dirty"
            calls = [call(multi, batch, k, ids=ids, ctx=ctx)]
            # each formula alone
            for i, f in enumerate(batch):
                calls.append(call(single, [f], k, ids=[i + 1], ctx=ctx))
            # sharing disabled
            calls.append(call("nosharing", batch, k, ids=ids, ctx=ctx))
            # permuted and with a repetition
            perm = ids[:]
            rng.shuffle(perm)
            perm.append(rng.choice(ids))
            calls.append(call(multi, [batch[i - 1] for i in perm], k, ids=perm, ctx=ctx))
            # repeated run with a progress observer, sanitised variant
            calls.append(call(multi, batch, k, ids=ids, ctx=ctx, progress=True))
            cases.append({"id": "%s-b%d" % (m["id"], j), "net": m["id"], "kinds": ["equal"], "calls": calls})
    return nets, cases, ["equal"]


# ----------------------------------------------------------------------------- C08
def respell(rng, f):
    """Rewrite the TEXT of a formula without changing its meaning: alpha-renaming (including
    the internally used names in another order), blanks, redundant parentheses, long operator
    names, constant spellings."""
    names = sorted({g["v"] for g in gen.subformulas(f) if g["op"] in ("bind", "exists", "forall")})
    pool = ["x", "xx", "xxx", "xxxx", "y", "v_1", "X", "a", "EX1"]
    rng.shuffle(pool)
    mapping = dict(zip(names, pool))
    g = gen.alpha_rename(copy.deepcopy(f), mapping)

    def r(h):
        op = h["op"]
        sp = lambda: rng.choice(["", " ", "  ", "\t", " \n "])
        if op == "true":
            return rng.choice(["true", "True", "1"])
        if op == "false":
            return rng.choice(["false", "False", "0"])
        if op == "prop":
            s = h["name"]
        elif op == "var":
            s = "{" + h["v"] + "}"
        elif op == "wild":
            s = "%" + h["name"] + "%"
        elif op in gen.UNARY:
            a = r(h["a"])
            s = "(" + sp() + ("~" + sp() if op == "not" else op + " " + sp()) + a + sp() + ")"
        elif op in gen.BINARY_BOOL or op in gen.BINARY_TEMP:
            o = gen.SYM.get(op, op)
            pad = " " if op in gen.BINARY_TEMP else sp()
            s = "(" + r(h["a"]) + pad + sp() + o + pad + sp() + r(h["b"]) + ")"
        else:
            head = gen.LONG[op].strip() + sp() if rng.random() < 0.5 else gen.SYM[op] + sp()
            dom = (sp() + "in" + sp() + "%" + h["dom"] + "%") if h.get("dom") else ""
            s = "(" + head + "{" + h["v"] + "}" + dom + sp() + ":" + sp() + r(h["a"]) + ")"
        if rng.random() < 0.25:
            s = "(" + sp() + s + sp() + ")"
        return s
    return g, sp_wrap(rng, r(g))


def sp_wrap(rng, s):
    return rng.choice(["", " ", "\t "]) + s + rng.choice(["", " ", " \n"])


def gen_c08(rng, probe, tier):
    thorough = tier == "thorough"
    sizes = [2] * (6 if thorough else 3) + [3] * (6 if thorough else 3)
    nets = probe(fixed_nets()) + network_pool(rng, probe, sizes)
    cases = []
    per_net = 50 if thorough else 16
    for m in nets:
        fg = gen.FormulaGen(rng, m["vars"], binary=gen.BINARY_BOOL + gen.BINARY_TEMP, p_quant=0.35, p_const=0.15)
        chain_gen = gen.FormulaGen(rng, m["vars"], binary=gen.BINARY_TEMP + gen.BINARY_TEMP + ["and", "imp"], unary=["not", "EX"],
                                   p_quant=0.1, p_const=0.05)
        for j in range(per_net):
            f = (chain_gen if j % 3 == 2 else fg).gen(rng.randint(2, 11))
            k = k_for(f)
            calls = [call("formula", [f], k, ids=[1])]
            for _ in range(3):
                g, text = respell(rng, f)
                c = call("formula", [g], k, ids=[1])
                c["formulas"] = [text]
                calls.append(c)
            # parentheses omitted where the documented precedence / right-associativity makes them redundant
            import synprops
            for _ in range(2):
                c = call("formula", [f], k, ids=[1])
                c["formulas"] = [synprops.render_min(f, rng)]
                calls.append(c)
            cases.append({"id": "%s-s%d" % (m["id"], j), "net": m["id"], "kinds": ["rewrite", "denote"], "calls": calls})
    return nets, cases, ["rewrite"]


# ----------------------------------------------------------------------------- C10
def replace_sub(f, target, repl):
    if f is target:
        return repl
    g = dict(f)
    for k in ("a", "b"):
        if k in f:
            g[k] = replace_sub(f[k], target, repl)
    return g


def gen_c10(rng, probe, tier):
    thorough = tier == "thorough"
    sizes = [2] * (6 if thorough else 3) + [3] * (6 if thorough else 3)
    nets = probe(fixed_nets()) + network_pool(rng, probe, sizes)
    cases = []
    per_net = 40 if thorough else 14
    for m in nets:
        fg = gen.FormulaGen(rng, m["vars"], binary=gen.BINARY_BOOL + ["EU", "AU"], p_quant=0.2, patterns=0.08)
        xg = ext_formula_gen(rng, m, patterns=0.08)
        plain_closed = gen.FormulaGen(rng, m["vars"], p_quant=0.15, unary=["not", "EX", "EF", "AG"], binary=["and", "or", "EU"],
                                      var_names=("u", "w1", "z"), max_nest=1)
        for j in range(per_net):
            if j % 3 == 2:
                # an EXTENDED surrounding formula (domains, wild-cards): the same closed sub-formula occurs
                # under several (restricted) scopes and is replaced everywhere by one wild-card
                psi = plain_closed.gen(rng.randint(2, 5))
                parts = same_body_under_scopes(rng, None, labels=("", "d", "e"), closed_body=B(rng.choice(["and", "or"]), psi, U("EX", psi)))
                f = parts[0]
                for p_ in parts[1:]:
                    f = B(rng.choice(["and", "or", "imp"]), f, p_)
                if rng.random() < 0.5:
                    f = B("and", f, xg.gen(rng.randint(2, 5)))
                ctx0 = {l: rand_ctx_spec(rng) for l in ("p", "q", "d", "e")}
                k = k_for(f)

                def subst(g):
                    if g == psi:
                        return W("w0")
                    h = dict(g)
                    for key in ("a", "b"):
                        if key in g:
                            h[key] = subst(g[key])
                    return h
                ctx1 = dict(ctx0)
                ctx1["w0"] = {"t": "result", "call": 0, "idx": 0}
                calls = [call("multi_dirty", [psi], k, ids=[100]),
                         call("ext_dirty", [f], k, ids=[1], ctx=ctx0),
                         call("ext_dirty", [subst(f)], k, ids=[1], ctx=ctx1),
                         call("multi_ext_dirty", [subst(f), subst(f)], k, ids=[1, 1], ctx=ctx1)]
                cases.append({"id": "%s-x%d" % (m["id"], j), "net": m["id"], "kinds": ["equal"], "calls": calls})
                continue
            f = fg.gen(rng.randint(4, 12))
            subs = [g for g in closed_subformulas(f) if g is not f]
            k = k_for(f)
            calls = [call("formula_dirty", [f], k, ids=[1])]
            if subs:
                chosen = rng.sample(subs, min(len(subs), rng.randint(1, 3)))
                # drop choices nested inside another chosen one
                chosen = [g for g in chosen if not any(g is not h and any(x is g for x in gen.subformulas(h)) for h in chosen)]
                calls.append(call("multi_dirty", chosen, k, ids=[100 + i for i in range(len(chosen))]))
                g2 = f
                ctx = {}
                for i, g in enumerate(chosen):
                    g2 = replace_sub(g2, g, W("w%d" % i))
                    ctx["w%d" % i] = {"t": "result", "call": 1, "idx": i}
                calls.append(call("ext_dirty", [g2], k, ids=[1], ctx=ctx))
                # the judge needs the reference for the substituted formula too: it is f's
                calls[-1]["asts"] = [g2]
            # plain formula through the extended entry points, empty context
            calls.append(call("ext_dirty", [f], k, ids=[1]))
            calls.append(call("multi_ext", [f], k, ids=[2]))
            calls.append(call("formula", [f], k, ids=[2]))
            cases.append({"id": "%s-w%d" % (m["id"], j), "net": m["id"], "kinds": ["equal"], "calls": calls})
    return nets, cases, ["equal"]


# ----------------------------------------------------------------------------- C12
def defeat_patterns(f):
    """Logically identical formula on which the recognisers do not fire: {x} -> ({x} & {x})."""
    g = dict(f)
    if f["op"] == "bind" and not f.get("dom"):
        a = f["a"]
        if a["op"] == "AX" and a["a"]["op"] == "var" and a["a"]["v"] == f["v"]:
            return H("bind", f["v"], U("AX", B("and", V(f["v"]), V(f["v"]))))
        if a["op"] == "AG" and a["a"]["op"] == "EF" and a["a"]["a"]["op"] == "var" and a["a"]["a"]["v"] == f["v"]:
            return H("bind", f["v"], U("AG", U("EF", B("and", V(f["v"]), V(f["v"])))))
    for k in ("a", "b"):
        if k in f:
            g[k] = defeat_patterns(f[k])
    return g


def near_miss(rng, v, scope, props=("a",)):
    other = rng.choice(scope) if scope else v
    a = P(rng.choice(list(props)))
    return rng.choice([
        # the pattern's operators around something that is NOT the bare variable
        H("bind", v, U("AG", U("EF", B("and", V(v), a)))),
        H("bind", v, U("AG", U("EF", U("not", V(v))))),
        H("bind", v, U("AG", U("EF", a))),
        H("bind", v, U("AG", U("EF", U("AX", V(v))))),
        H("bind", v, U("AG", U("EF", B("or", V(v), a)))),
        H("bind", v, U("AX", B("and", V(v), a))),
        H("bind", v, U("AX", B("or", V(v), U("not", a)))),
        H("bind", v, U("AX", a)),
        H("bind", v, U("AX", U("EX", V(v)))),
        # one operator of the pattern replaced
        H("bind", v, U("AG", V(v))),
        H("bind", v, U("AG", U("AF", V(v)))),
        H("bind", v, U("EG", U("EF", V(v)))),
        H("bind", v, U("EX", V(v))),
        H("bind", v, U("AX", V(other))),
        H("bind", v, U("AG", U("EF", V(other)))),
        H("bind", v, U("AX", V(v)), "d"),
        H("bind", v, U("AG", U("EF", V(v))), "d"),
        H("bind", v, U("AX", U("not", V(v)))),
        H("bind", v, U("AG", U("EX", V(v)))),
        H("bind", v, U("EF", U("AG", V(v)))),
        H("exists", v, U("AX", V(v))),
        H("forall", v, U("AG", U("EF", V(v)))),
        H("bind", v, U("AG", U("EF", U("EF", V(v))))),
    ])


def gen_c12(rng, probe, tier):
    thorough = tier == "thorough"
    sizes = [2] * (6 if thorough else 3) + [3] * (6 if thorough else 3)
    nets = probe(fixed_nets()) + network_pool(rng, probe, sizes)
    cases = []
    per_net = 40 if thorough else 14
    for m in nets:
        fg = gen.FormulaGen(rng, m["vars"], wild=["p"], doms=["d"], patterns=0.45, p_quant=0.25, p_dom=0.5,
                            var_names=("x", "y", "z", "xx"))
        for j in range(per_net):
            if j % 4 == 3:
                # the same pattern under several (restricted) scopes, inside ONE formula and as a batch
                pat = rng.choice([H("bind", "w", U("AG", U("EF", V("w")))), H("bind", "w", U("AX", V("w")))])
                parts = same_body_under_scopes(rng, None, labels=("", "d", "d"), closed_body=pat)
                f = parts[0]
                for p_ in parts[1:]:
                    f = B(rng.choice(["and", "or"]), f, p_)
                g = defeat_patterns(f)
                ctx = {l: rand_ctx_spec(rng) for l in ("p", "d")}
                k = k_for(f)
                calls = [call("ext_dirty", [f], k, ids=[1], ctx=ctx), call("ext_dirty", [g], k, ids=[1], ctx=ctx),
                         call("multi_ext_dirty", parts + [pat], k, ids=list(range(10, 10 + len(parts))) + [2], ctx=ctx),
                         call("ext_dirty", [pat], k, ids=[2], ctx=ctx)]
                for i_, p_ in enumerate(parts):
                    calls.append(call("ext_dirty", [defeat_patterns(p_)], k, ids=[10 + i_], ctx=ctx))
                cases.append({"id": "%s-q%d" % (m["id"], j), "net": m["id"], "kinds": ["denote", "equal"], "calls": calls})
                continue
            if rng.random() < 0.3:
                scope = rng.sample(["x", "y"], rng.randint(0, 2))
                inner = near_miss(rng, "z", scope, m["vars"])
                f = inner
                for v in reversed(scope):
                    # the look-alike is evaluated in states OTHER than the value of the outer variable
                    x = rng.random()
                    if x < 0.35:
                        f = U(rng.choice(["EF", "EX", "AX", "AG", "not"]), f)
                    elif x < 0.5:
                        f = H("jump", v, U(rng.choice(["EX", "EF"]), f))
                    elif x < 0.75:
                        f = B(rng.choice(["and", "or"]), f, V(v))
                    f = H(rng.choice(["bind", "exists", "forall"]), v, f, rng.choice(["", "", "d"]))
            else:
                f = fg.gen(rng.randint(3, 10))
            g = defeat_patterns(f)
            ctx = {l: rand_ctx_spec(rng) for l in ("p", "d")}
            k = k_for(f)
            calls = [call("ext_dirty", [f], k, ids=[1], ctx=ctx), call("ext_dirty", [g], k, ids=[1], ctx=ctx),
                     call("multi_ext", [f, g, f], k, ids=[1, 1, 1], ctx=ctx)]
            cases.append({"id": "%s-p%d" % (m["id"], j), "net": m["id"], "kinds": ["denote", "equal"], "calls": calls})
    return nets, cases, ["denote", "equal"]


# ----------------------------------------------------------------------------- C15
def gen_c15(rng, probe, tier):
    thorough = tier == "thorough"
    sizes = [2] * (6 if thorough else 3) + [3] * (5 if thorough else 2)
    nets = probe(fixed_nets()) + network_pool(rng, probe, sizes)
    cases = []
    per_net = 36 if thorough else 12
    for m in nets:
        fg = gen.FormulaGen(rng, m["vars"], p_quant=0.3, patterns=0.05)
        xg = ext_formula_gen(rng, m)
        for j in range(per_net):
            ext = rng.random() < 0.4
            f = (xg if ext else fg).gen(rng.randint(2, 9))
            d = k_for(f)
            ctx = {l: rand_ctx_spec(rng) for l in ("p", "q", "d", "e")} if ext else {}
            calls = []
            if j % 4 == 3 and not ext and m["pbits"] >= 1:
                # graphs with a CUSTOM unit set (a subset of the colours), same subset for every k
                cm = rng.randrange(1 << 30)
                for extra in (0, 1, 2):
                    calls.append(call(rng.choice(["formula", "tree", "multi"]), [f], d + extra, ids=[1], unit_cmask=cm))
                    calls.append(call("formula_dirty", [f], d + extra, ids=[1], unit_cmask=cm))
                cases.append({"id": "%s-u%d" % (m["id"], j), "net": m["id"], "kinds": ["equal", "canon"], "calls": calls})
                continue
            # graphs whose variables have different numbers of spare sets (each at least the nesting depth)
            for _ in range(2):
                km = [d + rng.choice([0, 0, 1, 2]) for _ in range(m["n"])]
                if ext:
                    calls.append(call("ext", [f], min(km), ids=[1], ctx=ctx, k_map=km))
                    calls.append(call("ext_dirty", [f], min(km), ids=[1], ctx=ctx, k_map=km))
                else:
                    calls.append(call(rng.choice(["formula", "multi"]), [f], min(km), ids=[1], k_map=km))
                    calls.append(call("formula_dirty", [f], min(km), ids=[1], k_map=km))
            for extra in (0, 1, 2):
                if ext:
                    calls.append(call("ext", [f], d + extra, ids=[1], ctx=ctx))
                    calls.append(call("ext_dirty", [f], d + extra, ids=[1], ctx=ctx))
                else:
                    calls.append(call(rng.choice(["formula", "tree", "multi"]), [f], d + extra, ids=[1]))
                    calls.append(call(rng.choice(["formula_dirty", "tree_dirty"]), [f], d + extra, ids=[1], san_proj=True))
            cases.append({"id": "%s-k%d" % (m["id"], j), "net": m["id"], "kinds": ["equal", "canon", "denote"], "calls": calls})
    return nets, cases, ["equal", "canon"]


# ----------------------------------------------------------------------------- C18
def gen_c18(rng, probe, tier):
    thorough = tier == "thorough"
    sizes = [2] * (8 if thorough else 4) + [3] * (8 if thorough else 4)
    nets = probe(fixed_nets()) + network_pool(rng, probe, sizes)
    cases = []
    per_net = 50 if thorough else 18
    for m in nets:
        frag = gen.FormulaGen(rng, m["vars"], unary=["not", "EF", "AG"], binary=gen.BINARY_BOOL + ["EU", "AW"], p_quant=0.3)
        full = gen.FormulaGen(rng, m["vars"], binary=gen.BINARY_BOOL + gen.BINARY_TEMP, p_quant=0.25)
        for j in range(per_net):
            f = (frag if rng.random() < 0.7 else full).gen(rng.randint(2, 10))
            if j % 5 == 4:
                # small binder shapes close to the optimised patterns: !{x}: OP {x}, !{x}: OP OP' {x}, ...
                ops_ = ["EF", "AG", "not"] if rng.random() < 0.7 else gen.UNARY
                body = V("x")
                for _ in range(rng.randint(1, 2)):
                    body = U(rng.choice(ops_), body)
                f = H(rng.choice(["bind", "bind", "exists", "forall"]), "x", body)
                if rng.random() < 0.5:
                    f = B(rng.choice(["and", "or", "EU"]), f, frag.gen(rng.randint(1, 4)))
            if j % 5 == 2 and m["n"] <= 3:
                # the self-loop-free variant prepares its evaluation context on its own (single-tree path): one open
                # sub-formula at the same height with its variables in swapped roles, inside the fragment
                f = permuted_roles(rng, gen.FormulaGen(rng, m["vars"], p_quant=0.0, quant=[], p_jump=0.15,
                                                       unary=["not", "EF", "AG"], binary=["and", "or", "EU"]), nvars=2)
            elif j % 5 == 3 and m["n"] <= 3:
                f = twin_under_binders(rng, m["vars"]) if rng.random() < 0.5 else B("and", frag.gen(3), B("or", frag.gen(3), frag.gen(2)))
            k = k_for(f)
            cases.append({"id": "%s-l%d" % (m["id"], j), "net": m["id"], "kinds": ["unsafe"],
                          "calls": [call("formula_dirty", [f], k), call("unsafe_ex", [f], k)]})
    return nets, cases, ["unsafe"]


# ----------------------------------------------------------------------------- C20
def gen_c20(rng, probe, tier):
    thorough = tier == "thorough"
    sizes = [2] * (8 if thorough else 4) + [3] * (8 if thorough else 3)
    pool = probe(fixed_nets()) + network_pool(rng, probe, sizes)
    nets = [m for m in pool if 1 <= m["pbits"] <= 4] or pool
    cases = []
    per_net = 24 if thorough else 8
    for m in nets:
        fg = gen.FormulaGen(rng, m["vars"], binary=gen.BINARY_BOOL + gen.BINARY_TEMP, p_quant=0.25, patterns=0.08)
        xg = ext_formula_gen(rng, m, patterns=0.1)
        defs = gen.FormulaGen(rng, m["vars"], p_quant=0.2, patterns=0.3, max_nest=1, unary=["not", "EX", "EF", "AG", "AX"], binary=["and", "or", "EU"])
        for j in range(per_net):
            if j % 3 == 2:
                # extended formula whose context sets are defined by closed formulae (colour-dependent sets)
                if j % 2 == 0:
                    f = xg.gen(rng.randint(2, 8))
                else:
                    # a value that is NOT computed on the restricted graph (wild-card, steady-state shortcut)
                    # directly under a quantifier with a colour-dependent domain
                    leaf = rng.choice([W("p"), H("bind", "y", U("AX", V("y"))), B("or", W("p"), W("q")), B("and", W("q"), H("bind", "y", U("AX", V("y"))))])
                    f = H(rng.choice(["bind", "exists", "bind"]), "x", leaf if rng.random() < 0.6 else B(rng.choice(["or", "and"]), leaf, xg.gen(3, scope=["x"])), "d")
                    if rng.random() < 0.4:
                        f = U(rng.choice(["EF", "AX", "not"]), f)
                k = max(k_for(f), 1)
                ctx = {l: {"t": "formula", "f": gen.render(defs.gen(rng.randint(2, 5)))} for l in ("p", "q", "d", "e")}
                calls = [call(rng.choice(["ext", "ext_dirty"]), [f], k, ctx=ctx)]
                for c in range(2 ** m["pbits"]):
                    calls.append(call("inst_formula", [f], k, colour=c, ctx=ctx))
                cases.append({"id": "%s-x%d" % (m["id"], j), "net": m["id"], "kinds": ["slice"], "calls": calls})
                continue
            f = fg.gen(rng.randint(2, 10))
            if j % 3 == 1:
                f = until_over_literals(rng, m["vars"])
            if j % 3 == 0:
                f = repeat_next_to_colourful(rng, m["vars"])
            k = k_for(f)
            calls = [call(rng.choice(["formula", "formula_dirty"]), [f], k)]
            for c in range(2 ** m["pbits"]):
                calls.append(call("inst_formula", [f], k, colour=c))
            cases.append({"id": "%s-c%d" % (m["id"], j), "net": m["id"], "kinds": ["slice"], "calls": calls})
    return nets, cases, ["slice"]


# ----------------------------------------------------------------------------- C14 (valid syntax)
def break_formula(rng, f, m):
    """Return (formula, context labels to provide, k) with zero or one injected defect."""
    g = copy.deepcopy(f)
    kind = rng.choice(["none", "none", "free", "requant", "prop", "label", "k", "jumpfree"])
    nodes = list(gen.subformulas(g))
    lab = sorted(gen.labels(g))
    provide = set(lab)
    k = k_for(g)
    if kind == "free":
        t = rng.choice(nodes)
        t.clear(); t.update(V("free_v"))
    elif kind == "jumpfree":
        t = rng.choice(nodes)
        inner = dict(t)
        t.clear(); t.update(H("jump", "nobody", inner))
    elif kind == "requant":
        qs = [n for n in nodes if n["op"] in gen.QUANT]
        if qs:
            q = rng.choice(qs)
            inner = dict(q["a"])
            q["a"] = H(rng.choice(gen.QUANT), q["v"], inner)
    elif kind == "prop":
        t = rng.choice(nodes)
        t.clear(); t.update(P(rng.choice(["nonvar", "A", "x", "a_"])))
    elif kind == "label":
        if provide:
            provide.discard(rng.choice(sorted(provide)))
    elif kind == "k":
        if k > 0:
            k -= 1
    if kind in ("none", "label", "prop", "free", "jumpfree", "requant") and rng.random() < 0.3:
        k = k_for(g) + rng.choice([0, 1])
    return g, provide, k


def gen_c14_sem(rng, probe, tier):
    thorough = tier == "thorough"
    sizes = [2] * (6 if thorough else 3) + [3] * (4 if thorough else 2)
    nets = probe(fixed_nets()) + network_pool(rng, probe, sizes)
    cases = []
    per_net = 60 if thorough else 20
    for m in nets:
        xg = ext_formula_gen(rng, m, patterns=0.05)
        fg = gen.FormulaGen(rng, m["vars"], patterns=0.05)
        for j in range(per_net):
            ext = rng.random() < 0.6
            f = (xg if ext else fg).gen(rng.randint(2, 9))
            if ext and j % 5 == 4:
                # valid input of a demanding shape: one sub-formula with wild-cards under several restricted scopes
                parts = same_body_under_scopes(rng, gen.FormulaGen(rng, m["vars"], wild=["p", "q"], p_wild=0.5, p_quant=0.0, quant=[],
                                                                   p_jump=0.0, unary=["not", "EX", "EF"], binary=["and", "or"]))
                f = parts[0]
                for p_ in parts[1:]:
                    f = B("and", f, p_)
            g, provide, k = break_formula(rng, f, m)
            if ext:
                ctx = {l: rand_ctx_spec(rng, inside_unit=rng.random() < 0.6) for l in provide}
                api = rng.choice(["ext", "ext_dirty", "multi_ext", "multi_ext_dirty"])
            else:
                ctx = {}
                api = rng.choice(["formula", "formula_dirty", "multi", "multi_dirty", "unsafe_ex"])
            cases.append({"id": "%s-a%d" % (m["id"], j), "net": m["id"], "kinds": ["api"],
                          "calls": [call(api, [g], k, ctx=ctx)]})
    return nets, cases, ["api"]


GENERATORS = {
    "C01": gen_c01, "C02": gen_c02, "C03": gen_c03, "C04": gen_c04, "C08": gen_c08, "C10": gen_c10,
    "C12": gen_c12, "C13": gen_c13, "C15": gen_c15, "C18": gen_c18, "C20": gen_c20,
}


def gen_c14(rng, probe, tier):
    import synprops
    nets, cases, _ = gen_c14_sem(rng, probe, tier)
    for c in cases:
        c["kinds"] = ["api", "apistr"]
    thorough = tier == "thorough"
    per_net = 400 if thorough else 90
    plain_apis = ["formula", "formula_dirty", "multi", "multi_dirty", "unsafe_ex"]
    ext_apis = ["ext", "ext_dirty", "multi_ext", "multi_ext_dirty"]
    for m in nets:
        # strings over the network's own variable names, valid, mutated, token soup, noise
        # proposition names: the network's variables, unknown names, and names the symbolic encoding itself
        # uses for auxiliary / parameter variables (which are NOT network variables)
        odd = ["nonvar"] + ["%s_extra_%d" % (v, i) for v in m["vars"][:2] for i in (0, 1)] + ["f", "k", "extra_0"]
        fg = gen.FormulaGen(rng, m["vars"] + m["vars"] + odd, binary=gen.BINARY_BOOL + gen.BINARY_TEMP, wild=["p", "q"], doms=["d"],
                            var_names=("x", "y", "zz", "1", "EX"), p_quant=0.3, p_const=0.1, max_nest=3, patterns=0.05)
        for j in range(per_net):
            nform = 1 if rng.random() < 0.8 else 2
            texts = []
            for _ in range(nform):
                f = fg.gen(rng.randint(1, 9))
                s = synprops.render_min(f, rng)
                x = rng.random()
                if x < 0.5:
                    for _ in range(rng.randint(1, 2)):
                        s = synprops.mutate(rng, s)
                elif x < 0.6:
                    s = synprops.random_strings(rng, 1)[0]
                elif x < 0.72:
                    # a missing connective: an OPERAND (proposition, constant, variable, wild-card, group) directly before
                    # a quantifier / jump - not a formula, whatever the operand is (it must not be dropped silently)
                    v = rng.choice(["x", "y"])
                    operand = rng.choice([rng.choice(m["vars"]), "true", "nonvar", "%p%", "%missing%", "{" + v + "}",
                                          "(" + rng.choice(m["vars"]) + " & " + rng.choice(m["vars"]) + ")", "(" + s + ")"])
                    hyb = rng.choice(["!{%s}: AX {%s}", "3{%s}: (@{%s}: AX {%s})", "V{%s}: EF {%s}", "\\bind {%s}: {%s}", "!{%s} in %d%: AG EF {%s}"])
                    s = operand + rng.choice([" ", "  ", ""]) + (hyb.replace("%s", v))
                    if rng.random() < 0.3:
                        s = rng.choice(["AG ", "~", "EF "]) + "(" + s + ")"
                texts.append(s)
            ext = rng.random() < 0.6
            labels = [l for l in ("p", "q", "d") if rng.random() < 0.7]
            ctx = {l: rand_ctx_spec(rng, inside_unit=rng.random() < 0.6) for l in labels} if ext else {}
            api = rng.choice(ext_apis if ext else plain_apis)
            if not api.startswith("multi"):
                texts = texts[:1]
            c = {"api": api, "k": rng.choice([0, 1, 1, 2, 3]), "formulas": texts, "asts": [], "ids": [], "ctx": ctx}
            cases.append({"id": "%s-s%d" % (m["id"], j), "net": m["id"], "kinds": ["apistr"], "calls": [c]})
    return nets, cases, ["api", "apistr"]


GENERATORS["C14"] = gen_c14
