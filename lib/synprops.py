"""Input generators for the front-end properties (C05, C06, C07, C09) judged by
spec/Trace_Syn.tla and spec/Trace_Scope.tla."""
import itertools
import random

import gen
from gen import T, F, P, V, W, U, B, H

# ----------------------------------------------------------------------------- token level
ATOMS = ["a", "p_1", "{x}", "true", "0", "EXa", "3x", "V_", "A", "E", "%w%"]
UNOPS = ["~", "EX", "AX", "EF", "AF", "EG", "AG"]
BINOPS = ["&", "|", "^", "=>", "<=>", "EU", "AU", "EW", "AW"]
HYBS = ["!{x}:", "@{x}:", "3{y}:", "V{x}:", "\\bind {x}:", "\\jump{x}:", "\\exists {z} :", "\\forall{x}:",
        "!{x} in %d%:", "3 {y} in%d%:", "V{x}in %d% :", "@{x} in %d%:"]
GROUPS = ["()", "(a)", "(a & b)", "(~a)", "(!{x}: a)", "(a a)", "((a))", "(a EU b)"]


def token_alphabet(level):
    if level == 0:
        return ["a", "{x}", "~", "EX", "&", "|", "=>", "EU", "AW", "!{x}:", "@{x}:", "(a)", "()", "(~a)", "(a & a)", "(!{x}: a)", "(a a)"]
    return ATOMS[:6] + UNOPS[:3] + BINOPS + HYBS[:4] + [HYBS[8]] + GROUPS


def enumerate_token_strings(max_len, level=0):
    alpha = token_alphabet(level)
    for n in range(0, max_len + 1):
        for seq in itertools.product(alpha, repeat=n):
            yield " ".join(seq)


# ----------------------------------------------------------------------------- text level
def render_min(f, rng, parent_level=0, right=False):
    """Render with only the parentheses the documented grammar needs (sometimes more), random
    spellings and blanks. Levels: 1 iff, 2 imp, 3 or, 4 xor, 5 and, 6 temporal binary, 7 unary."""
    lv = {"iff": 1, "imp": 2, "or": 3, "xor": 4, "and": 5, "EU": 6, "AU": 6, "EW": 6, "AW": 6}
    op = f["op"]
    sp = lambda: rng.choice(["", " ", " ", "  ", "\t"])
    if op == "true":
        return rng.choice(["true", "True", "1"])
    if op == "false":
        return rng.choice(["false", "False", "0"])
    if op == "prop":
        return f["name"]
    if op == "var":
        return "{" + f["v"] + "}"
    if op == "wild":
        return "%" + f["name"] + "%"
    if op in gen.UNARY:
        inner = render_min(f["a"], rng, 7)
        s = ("~" + sp() if op == "not" else op + " ") + inner
        return "(" + s + ")" if rng.random() < 0.15 else s
    if op in lv:
        l = lv[op]
        a = render_min(f["a"], rng, l + 1)
        b = render_min(f["b"], rng, l, right=True)
        o = gen.SYM.get(op, op)
        pad = " " if l == 6 else sp()
        s = a + pad + o + pad + b
        need = l < parent_level
        return "(" + s + ")" if need or rng.random() < 0.15 else s
    # hybrid: allowed only at the start of a formula or group
    head = (gen.LONG[op].strip() + sp()) if rng.random() < 0.4 else gen.SYM[op] + sp()
    dom = (sp() + "in" + sp() + "%" + f["dom"] + "%") if f.get("dom") else ""
    s = head + "{" + f["v"] + "}" + dom + sp() + ":" + sp() + render_min(f["a"], rng, 0)
    return "(" + s + ")" if parent_level > 0 or rng.random() < 0.2 else s


IDENT_POOL = ["a", "b", "p_1", "_", "_x", "1a", "3a", "33", "V1", "Vx", "EX1", "EXa", "AGa", "E", "A", "EU_", "AXE", "x",
              # case variants of the constants and digit strings other than 0 / 1: legal proposition names
              "TRUE", "FALSE", "tRue", "fAlse", "TruE", "00", "01", "10",
              # temporal-operator prefixes followed by an underscore: one name
              "EF_m", "AX_", "EU_1", "AW_a", "EG_x",
              "in", "inx", "true1", "True_", "\u00e9", "a\u00e9", "\u0434", "\u0663", "a\u2167", "bind", "exists"]
BLANKS = [" ", "\t", "\n", "\u00a0", "\u2003", "\r"]


def mutate(rng, s):
    if not s:
        return rng.choice(["(", ")", "~", "a"])
    k = rng.choice(["del", "ins", "swap", "dup", "blank", "paren"])
    i = rng.randrange(len(s))
    pool = list("(){}%~&|^=<>!@3V:\\ ") + ["EX", "AU", " in ", "a", "_", "1", "\u00e9", "\u2003"]
    if k == "del":
        return s[:i] + s[i + 1:]
    if k == "ins":
        return s[:i] + rng.choice(pool) + s[i:]
    if k == "swap" and len(s) > 1:
        j = rng.randrange(len(s))
        l = list(s)
        l[i], l[j] = l[j], l[i]
        return "".join(l)
    if k == "dup":
        return s[:i] + s[i] + s[i:]
    if k == "blank":
        return s[:i] + rng.choice(BLANKS) + s[i:]
    return s[:i] + rng.choice(["(", ")"]) + s[i:]


def random_strings(rng, count):
    out = []
    fg = gen.FormulaGen(rng, IDENT_POOL[:20], binary=gen.BINARY_BOOL + gen.BINARY_TEMP, wild=["w", "1w"], doms=["d", "_d"],
                        var_names=("x", "y", "zz", "1", "EX", "_", "V"), p_quant=0.3, p_const=0.1, max_nest=3)
    for i in range(count):
        f = fg.gen(rng.randint(1, 10))
        s = render_min(f, rng)
        x = rng.random()
        if x < 0.35:
            pass
        elif x < 0.75:
            for _ in range(rng.randint(1, 3)):
                s = mutate(rng, s)
        elif x < 0.9:
            # random token soup
            s = " ".join(rng.choice(ATOMS + UNOPS + BINOPS + HYBS + GROUPS + IDENT_POOL) for _ in range(rng.randint(1, 6)))
        else:
            s = "".join(rng.choice(list("(){}%~&|^=<>!@3V:\\ aEXUAGFW_1") + BLANKS) for _ in range(rng.randint(1, 10)))
        out.append(s)
    return out


# ----------------------------------------------------------------------------- trees (C06)
VALID_IDENTS = ["a", "b1", "_", "p_1", "EXa", "3x", "V_", "x", "xx", "A", "\u00e9", "TRUE", "fAlse", "00", "EF_m", "AU_1"]


def all_trees(size, atoms, unary, binary, hybrid):
    """All trees with exactly `size` nodes."""
    if size == 1:
        for a in atoms:
            yield a
        return
    for op in unary:
        for a in all_trees(size - 1, atoms, unary, binary, hybrid):
            yield U(op, a)
    for (op, v, d) in hybrid:
        for a in all_trees(size - 1, atoms, unary, binary, hybrid):
            yield H(op, v, a, d)
    for op in binary:
        for l in range(1, size - 1):
            for a in all_trees(l, atoms, unary, binary, hybrid):
                for b in all_trees(size - 1 - l, atoms, unary, binary, hybrid):
                    yield B(op, a, b)


def random_tree(rng, budget):
    fg = gen.FormulaGen(rng, VALID_IDENTS, binary=gen.BINARY_BOOL + gen.BINARY_TEMP, wild=["w", "W_1"], doms=["d", "dom2"],
                        var_names=VALID_IDENTS, p_quant=0.3, p_const=0.1, max_nest=6, p_jump=0.15)
    # not necessarily well-scoped: scope given so that variables and jumps occur
    return fg.gen(budget, scope=["x", "v1"])
