#!/usr/bin/env python3
"""Regenerates /verif/MANIFEST.json from the table below (run after adding a check)."""
import json, os, subprocess
VERIF = os.path.dirname(os.path.dirname(os.path.abspath(__file__)))
props = [json.loads(l) for l in open(os.path.join(VERIF, "properties.jsonl"))]

SEM_NOTE = ("Trusted: the network parsers and variable-role accessors of biodivine-lib-param-bn; TLC. "
            "Bounded: networks with n + parameter bits <= 9, formulae of bounded size / nesting <= 3; "
            "seeded random inputs (VERIF_SEED) plus fixed constrained networks.")
CHECKS = {
 "C01": ("TLC model checking of the evaluator model against the reference semantics (MC_Evaluator, thorough); TLA+ reference semantics (Hctl.tla over BoolNet.tla) evaluated by TLC; API-level trace validation of recorded model_check_* calls (Trace_Sem.tla, judgement 'denote')",
         "Every recorded result of the plain entry points is compared by TLC, pair by pair on every valid colour, with the denotation computed from the specification's own transition system."),
 "C02": ("TLA+ reference semantics with wild-cards/domains; trace validation of extended entry points (Trace_Sem 'denote' + README equivalences 'equal')",
         "Extended formulae with colour-dependent, empty and nested domains are judged against Hctl.Sat; both sides of the README equivalences are evaluated through the API and judged equal and correct."),
 "C03": ("trace validation of every kind of call on constrained networks (Trace_Sem 'unit'); valid colours computed by BoolNet.tla; primitive-level trace validation of every symbolic primitive on arbitrary relations against its set-level contract (Trace_Rel over Rel.tla; drift = NOTE)",
         "TLC decides result <= universe(valid colours) and no dependence on auxiliary variables for every recorded call."),
 "C04": ("TLC model checking of the evaluator state machine with cache / counters / scopes (Evaluator.tla, MC_Evaluator: BatchTransparent, CacheSound, housekeeping, liveness); step-level validation of hook traces against the model (Trace_Eval); TLC model checking of the action-level cache protocol with quantifier scopes and the save rule (Cache.tla, MC_Cache: StoredValuesPortable, FetchBound, WildKept) and trace validation of the hooks' hit / miss / save / open / close events against its actions (Trace_Cache); trace validation of batches vs single vs sharing-disabled evaluation (Trace_Sem 'equal')",
         "Batches with forced overlap up to renaming, inside/outside domain scopes, permuted and repeated, with and without progress observer; TLC judges equality position by position."),
 "C08": ("trace validation of a formula and its textual rewrites (Trace_Sem 'equal')",
         "Alpha-renaming (incl. internal names permuted), blanks, redundant parentheses, long/short spellings, constant spellings; equal results required."),
 "C10": ("trace validation of wild-card substitution of closed sub-formulae (Trace_Sem 'equal')",
         "Raw results of closed sub-formulae are fed back as wild-card context (1-3 simultaneous replacements); plain formulae through extended entry points with empty context."),
 "C11": ("law catalogue in TLA+ (Laws.tla, 78 laws + 3 reachability oracles) model-checked by TLC on all total Kripke structures up to 3 states x all argument sets (MC_Laws); both sides of every law judged against Hctl.Sat on small networks (Trace_Sem); TLC-exported catalogue replayed on the bundled benchmark models, BDD-equality facts checked by Trace_Laws; EF/AG/EU against the graph library's reachability",
         "Fixed-point characterisations, dualities, monotonicity, distribution, idempotence, absorption, degenerate arguments, weak until, self-loops on steady states, binder definitions with and without domains, commuting quantifiers (two variables); the next-step and binder laws are also proved for arbitrary sets with TLAPS (Proofs.tla, 47 obligations). On benchmark-size models the check is agreement between two computations (law replay), not comparison with the reference semantics."),
 "C12": ("MC_Evaluator with pattern-heavy pools; step-level hook traces (Trace_Eval) and cache-protocol traces (Trace_Cache over Cache.tla); trace validation of pattern formulae vs pattern-defeating rewrites vs reference semantics (Trace_Sem 'denote','equal'); Attractor/Steady defined graph-theoretically in BoolNet.tla",
         "Patterns and near-misses at top level, under operators, in (domain-restricted) scopes, in batches, on constrained networks."),
 "C13": ("TLA+ weak-until semantics; trace validation of EW/AW formulae and of the defining equivalences evaluated through the tool (Trace_Sem 'denote','equal')",
         "EW/AW results judged against E[a U b] or EG a / not E[not b U (not a and not b)] computed by TLC."),
 "C14": ("API pipeline outcome (ok / err / panic) judged by TLC: the specification lexes and parses the recorded characters (Syntax.tla) and decides ShouldErr (binding, propositions, context labels, nesting depth vs k) (Trace_Sem 'api', 'apistr')",
         "Every string entry point under catch_unwind on valid formulae with injected defects, grammar-mutated, token-soup and unicode strings, partial context maps (sets also outside the valid universe), k = 0..3."),
 "C15": ("trace validation across k = depth..depth+2 (uniform and per-variable), plain and custom unit sets, sanitised vs raw, sanitised sets also read through their own API (Trace_Sem 'equal','canon')",
         "All variants must give the same explicit set; sanitised BDDs must live in the canonical variable set and intersect with a plain graph's unit set."),
 "C18": ("trace validation of unsafe_ex vs dirty evaluation; antecedent (fragment / no steady state) decided by TLC (Trace_Sem 'unsafe')",
         "Equality required exactly when the specification says loops cannot matter."),
 "C20": ("trace validation: colour slice of the parametrised result vs result on the network instantiated by the harness vs Sat in that colour (Trace_Sem 'slice'); the same comparison as BDD-level facts judged by TLC on networks with 2^60+ coloured states (Trace_Slice)",
         "All colours of small networks; a few colours of networks with ~30 free constants; instantiation is done from the truth-table bits, independent of the library's witness picker."),
}
SYN_NOTE = ("Trusted: TLC; character classes are Rust's char::is_alphanumeric / is_whitespace as recorded by the harness. "
            "The lexical conventions the README leaves open are fixed in the header of spec/Syntax.tla. Bounded enumeration plus seeded random inputs.")
SYN = {
 "C05": ("TLC model checking ImplParse = Parse on all token sequences up to length 4 / 5 (MC_Syntax); TLA+ lexical grammar and precedence-climbing parser (Syntax.Lex / Parse) evaluated by TLC on the recorded characters; trace validation of try_tokenize_* and parse_* (Trace_Syn 'c05')",
         "All token sequences up to a length bound (rendered to text) and seeded random / mutated / unicode strings: tokens and tree must be the ones the documented grammar dictates, rejection exactly when not derivable, plain = extended on plain input."),
 "C06": ("TLA+ Render / Height evaluated by TLC node by node on trees built with the public constructors and on parser output; print-parse round trip (Trace_Syn 'c06build', 'c06parse')",
         "All trees up to a size bound, random deep trees, and trees produced by the parsers."),
 "C07": ("TLC model checking of the specified renamer on all well-scoped trees up to 3 / 4 nodes (MC_Scope RenameOK); TLA+ WellScoped / Rename / de Bruijn normal form (Scope.tla) evaluated by TLC on recorded preprocessing results (Trace_Scope 'c07')",
         "Acceptance <=> well-scoped and known propositions; result alpha-equivalent, depth-named, minimal number of names, idempotent; also parse_and_minimize_*, collect_unique_*, check_hctl_var_support."),
 "C09": ("TLC model checking of the code's canonisation algorithm against alpha-equivalence on all pairs of sub-formulae up to the bound (MC_Scope CanonOK); TLA+ alpha-equivalence of open sub-formulae by brute-force bijections and independent occurrence counting (Scope.tla) on recorded canonical forms and duplicate maps (Trace_Scope 'c09canon', 'c09dups')",
         "Every pair of sub-formulae of every generated list; every reported duplicate."),
}
CLI_NOTE = ("Trusted: TLC; the network parsers of biodivine-lib-param-bn; BDD text serialisation and zip framing are not modelled "
            "(observed only through reloaded sets); stdout is split into lines mechanically. Small networks, seeded inputs.")
CLI = {
 "C16": ("archive as a map in TLA+ (Trace_Arch.RoundTrip, LinesMatch); trace validation of build_result_archive and of analyse_formulae -> zip directory -> model re-parse -> load_bdd_bundle, explicit sets before/after, entry i vs line i, wild-card probe",
         "Label->set maps incl. empty, full, beyond-unit and result sets, on aeon / bnet / sbml inputs, k = 0..2, fresh paths and paths holding an older larger archive; reloaded sets, entry list, formula list and model judged by TLC."),
 "C19": ("input/output relation of the converter in TLA+ (Converter.Related) evaluated by TLC on recorded runs of the binary (Trace_Conv); the Shannon-expansion algorithm model-checked against completeness for arity 0..3 (quick) / 0..4 (thorough: all 65 536 functions of four arguments) (MC_Converter); the induction step of that completeness - one Shannon level reaches every function of (a, x) by exactly one pair of cofactors - proved for arbitrary argument sets with TLAPS (Proofs.tla ShannonStep / ShannonSurjective / ShannonInjective)",
         "For each target TLC enumerates every valuation of the fresh constants and compares the set of truth tables with the set of instantiations of the input function; inputs stay inputs, no other targets, no crash."),
 "C17": ("state machine of one tool run in TLA+ (Cli.tla), model-checked over a small input space (MC_Cli: InOrder, FailQuiet, FailKeepsOld, Replaced, Complete, termination, refinement of the control skeleton CliMachine.tla whose safety properties are proved with TLAPS for every number of formulae); path-wise trace validation by TLC of the binary's stdout lines, exit status and -o archive against it (Trace_Cli.tla), reference sets from the library API",
         "Every recorded run is an independent behaviour: the machine runs, the recorded lines are consumed against its output; order, texts, the three counts, exhaustive state lists, archived sets, and message-not-crash for failure scenarios."),
}
checks = []
for pid, (tech, text) in CLI.items():
    checks.append({
        "property_id": pid,
        "quick_cmd": "./check %s --tier quick" % pid,
        "thorough_cmd": "./check %s --tier thorough" % pid,
        "evidence_file": "evidence/%s.json" % pid,
        "replay_cmd_template": "./check %s --replay {path}" % pid,
        "engine": "tlc-trace-cli",
        "level_claimed": {"category": "model_checking", "text": text, "design_ref": "DESIGN.md section 8 (%s), 14" % pid},
        "level_note": CLI_NOTE,
        "technique": tech,
    })
for pid, (tech, text) in SYN.items():
    checks.append({
        "property_id": pid,
        "quick_cmd": "./check %s --tier quick" % pid,
        "thorough_cmd": "./check %s --tier thorough" % pid,
        "evidence_file": "evidence/%s.json" % pid,
        "replay_cmd_template": "./check %s --replay {path}" % pid,
        "engine": "tlc-trace-syn",
        "level_claimed": {"category": "model_checking", "text": text, "design_ref": "DESIGN.md section 8 (%s), 14" % pid},
        "level_note": SYN_NOTE,
        "technique": tech,
    })
for pid, (tech, text) in CHECKS.items():
    checks.append({
        "property_id": pid,
        "quick_cmd": "./check %s --tier quick" % pid,
        "thorough_cmd": "./check %s --tier thorough" % pid,
        "evidence_file": "evidence/%s.json" % pid,
        "replay_cmd_template": "./check %s --replay {path}" % pid,
        "engine": "tlc-trace-sem",
        "level_claimed": {"category": "model_checking", "text": text, "design_ref": "DESIGN.md section 8 (%s), 14" % pid},
        "level_note": SEM_NOTE,
        "technique": tech,
    })
hooks = subprocess.run(["git", "-C", "/repo", "log", "--format=%h %s"], capture_output=True, text=True).stdout.splitlines()
hook_commits = [l.split()[0] for l in hooks if l.split(" ", 1)[1].startswith("verif-hook")]
m = {
 "version": 1,
 "setup_cmd": "cd /verif && python3 lib/setup.py",
 "hooks": {"guard": "hctl_verif",
           "enable": "--cfg hctl_verif via /verif/harness/.cargo/config.toml (rustflags); the harness is a separate cargo workspace with a path dependency on /repo",
           "baseline_off_cmd": "cd /repo && cargo test --workspace --no-fail-fast --offline",
           "source_commits": hook_commits, "add_only": True},
 "engines": [
   {"name": "tlc-trace-cli", "path": "spec/Cli.tla, spec/Trace_Cli.tla, spec/Trace_Arch.tla", "serves_properties": sorted(CLI),
    "kind_free_text": "TLC validates recorded runs of the hctl-model-checker binary path-wise against the Cli.tla state machine, and archive round trips against the archive-as-map predicate"},
   {"name": "tlc-trace-syn", "path": "spec/Trace_Syn.tla, spec/Trace_Scope.tla", "serves_properties": sorted(SYN),
    "kind_free_text": "TLC evaluates Syntax.tla / Scope.tla on events recorded from the real tokenizer, parser, constructors, preprocessing, canonisation and duplicate marking (hctl-conf syn)"},
   {"name": "tlc-trace-sem", "path": "spec/Trace_Sem.tla", "serves_properties": sorted(CHECKS),
    "kind_free_text": "TLC evaluates the TLA+ reference semantics (BoolNet.tla, Hctl.tla) on API-level traces recorded from the real entry points by harness/ (hctl-conf sem)"},
 ],
 "checks": checks,
 "not_applicable": [{"property_id": p["id"], "reason": "check not built yet (build in progress; see DESIGN.md section 8 for the plan)"}
                    for p in props if p["id"] not in CHECKS and p["id"] not in SYN and p["id"] not in CLI],
 "notes": "Driver: ./check <ID> [--tier quick|thorough] [--seed N] [--replay FILE]; exit 0 held / 1 VIOLATION / 2 tool error. Known findings: known_findings.json.",
}
json.dump(m, open(os.path.join(VERIF, "MANIFEST.json"), "w"), indent=1)
print("checks:", len(checks), "not_applicable:", len(m["not_applicable"]))
