"""Per-property orchestration: build, generate, drive the real code, let TLC judge, report."""
import json
import os
import random
import time

import common
from common import log, ToolError
import semprops

ASSUME_SEM = [
    "the network parsers and the variable-role accessors of biodivine-lib-param-bn are trusted "
    "(SymbolicContext::get_*_function_table, state_variables, extra_state_variables)",
    "explicit comparison is bounded: networks with n + parameter bits <= 9, formulae of bounded size and nesting",
    "spec/BoolNet.tla's valid-colour computation is cross-checked against the library's unit set on every network (tool error on mismatch)",
]


# (quick, thorough) number of generator rounds per property
ROUNDS = {"C01": (3, 12), "C02": (3, 8), "C03": (3, 12), "C04": (3, 12), "C08": (2, 8), "C10": (3, 12), "C12": (3, 12),
          "C13": (3, 8), "C14": (3, 10), "C15": (2, 4), "C18": (3, 12), "C20": (3, 12)}


def known_match(pid, case, kinds_failed):
    """Return the known finding (status 'known') this failing case is an instance of, if any."""
    for k in common.load_known():
        if k.get("status") != "known" or k.get("property") != pid:
            continue
        m = k.get("match", {})
        texts = [t for c in case["calls"] for t in c.get("formulas", [])]
        if m.get("net") and m["net"] != case.get("net_model"):
            continue
        if m.get("formulas") and sorted(m["formulas"]) != sorted(texts):
            continue
        return k
    return None


def run_sem(pid, tier, seed, replay, gen_fn=None, extra_cov=None, t_start=None):
    t0 = t_start or time.time()
    common.build()
    d = common.workdir("%s-%s" % (pid, tier))
    rng = random.Random(seed * 1000003 + int(pid[1:]))
    if replay:
        doc = json.load(open(replay))
        nets, cases, judged = doc["nets"], doc["cases"], doc["judged"]
    else:
        gen_fn = gen_fn or semprops.GENERATORS[pid]
        # several independently seeded rounds of the property's generator
        rounds = ROUNDS.get(pid, (2, 8))[1 if tier == "thorough" else 0]
        nets, cases, judged = [], [], []
        for rd in range(rounds):
            n_, c_, judged = gen_fn(random.Random(rng.randrange(1 << 60)), common.probe_networks, tier)
            for n in n_:
                n["id"] = "r%d_%s" % (rd, n["id"])
            for c in c_:
                c["id"] = "r%d_%s" % (rd, c["id"])
                c["net"] = "r%d_%s" % (rd, c["net"])
            nets += n_
            cases += c_
    used = {c["net"] for c in cases}
    nets = [n for n in nets if n["id"] in used]
    jobs = os.path.join(d, "jobs.json")
    with open(jobs, "w") as f:
        json.dump({"nets": nets, "cases": cases}, f)
    common.harness(["sem", jobs, os.path.join(d, "out")], timeout=7200)
    files = [os.path.join(d, "out", n["id"] + ".json") for n in nets]
    verdicts, stats = common.judge_sem(files, timeout=3600 if tier == "thorough" else 1200)
    if stats["unit_mismatch"]:
        raise ToolError("specification and library disagree on the valid colours of %s" % stats["unit_mismatch"])
    recorded = {}
    for fp in files:
        doc = json.load(open(fp))
        for c in doc["cases"]:
            recorded[c["id"]] = (doc, c)
    violations, known_hits, na, judged_n = [], {}, 0, 0
    netmodel = {n["id"]: n for n in nets}
    for c in cases:
        vs = verdicts.get(c["id"])
        if vs is None or len(vs) != len(c["kinds"]):
            raise ToolError("no verdict for case %s" % c["id"])
        failed = [k for k, v in zip(c["kinds"], vs) if v == "F" and k in judged]
        na += sum(1 for k, v in zip(c["kinds"], vs) if v == "NA" and k in judged)
        judged_n += sum(1 for k, v in zip(c["kinds"], vs) if v in ("T", "F") and k in judged)
        if failed:
            doc, rc = recorded[c["id"]]
            rc = dict(rc)
            te = [x for x in rc["calls"] if x.get("outcome") == "toolerr"]
            if te:
                # the harness itself could not set the call up: never a statement about the code under test
                raise ToolError("harness could not set up a call of case %s: %s" % (c["id"], te[0].get("msg")))
            rc["net_model"] = netmodel[c["net"]]["model"]
            k = known_match(pid, rc, failed)
            if k:
                known_hits.setdefault(k["id"], (k, 0))
                known_hits[k["id"]] = (k, known_hits[k["id"]][1] + 1)
                continue
            violations.append((c, failed, rc))
    pre = (extra_cov or {}).pop("_pre_violations", []) if extra_cov else []
    for payload, text in pre[:20]:
        path = common.write_replay(pid, payload)
        log("VIOLATION property=%s replay=%s" % (pid, path))
        log("  " + text)
    for kid, (k, n) in known_hits.items():
        log("KNOWN-FINDING: property=%s %s (%s; %d case(s))" % (pid, k["what"], kid, n))
    for c, failed, rc in violations[:20]:
        path = common.write_replay(pid, {"property": pid, "judged": judged, "failed_judgements": failed,
                                         "nets": [netmodel[c["net"]]], "cases": [c], "recorded": rc})
        log("VIOLATION property=%s replay=%s" % (pid, path))
        log("  judgement(s) %s failed on network %s: %s" % (failed, c["net"], [x["formulas"] for x in c["calls"]][:3]))
    if judged_n == 0:
        raise ToolError("vacuous run: no judgement applied")
    samples = []
    for c in cases[:3]:
        doc, rc = recorded[c["id"]]
        samples.append({"network": netmodel[c["net"]]["model"], "calls": [
            {"api": x["api"], "k": x["k"], "formulas": x["formulas"], "outcome": x.get("outcome"),
             "result_sizes": [len(r) for r in x.get("res", [])]} for x in rc["calls"]][:4],
            "verdict": dict(zip(c["kinds"], verdicts[c["id"]]))})
    cov = {
        "states": max(1, stats["distinct"]), "transitions": max(1, stats["states"]),
        "traces_validated_against_impl": len(cases),
        "samples": samples,
        "evaluations": sum(len(c["calls"]) for c in cases),
        "judgements": judged_n, "judgements_not_applicable": na,
        "networks": len(nets), "tlc_runs": stats["tlc_runs"],
        "rule": "seeded random networks (plus fixed constrained ones) x seeded random formulae; each recorded API call judged by TLC (spec/Trace_Sem.tla, judgements %s) against spec/Hctl.tla over spec/BoolNet.tla" % judged,
        "exhaustive": False,
    }
    if extra_cov:
        add = extra_cov.pop("_add_states", (0, 0))
        ma = extra_cov.get("mode_A_evaluator") or {}
        cov["states"] += add[0] + ma.get("states", 0)
        cov["transitions"] += add[1] + ma.get("transitions", 0)
        cov.update(extra_cov)
    common.write_evidence(pid, tier, seed, "model_checking", cov, time.time() - t0, len(violations) + len(pre), ASSUME_SEM)
    log("%s %s: %d cases, %d calls, %d judgements (%d n/a), %d violation(s), %d known; %.1fs" % (
        pid, tier, len(cases), cov["evaluations"], judged_n, na, len(violations) + len(pre), sum(n for _, n in known_hits.values()), time.time() - t0))
    return 1 if (violations or pre) else 0


MODEL_A_QUICK = {"C04", "C12"}                     # properties whose quick tier also runs MC_Evaluator
MODEL_A_THOROUGH = {"C01", "C02", "C03", "C04", "C12", "C13", "C14"}
STEP_TRACES = {"C04", "C12"}                       # properties whose checks also validate hook traces
PRIMITIVES = {"C03"}                               # properties whose checks also replay the symbolic primitives (Trace_Rel)


WIDE = {"C20"}                                     # properties whose checks also compare slices on networks beyond 2^53 pairs


def run_wide_only(pid, tier, seed, jobs):
    """replay of a violation found by the wide-slice family"""
    import wideprops
    t0 = time.time()
    common.build()
    wd = common.workdir("%s-%s-wide" % (pid, tier))
    jobs, facts, verdicts, stats = wideprops.run_wide(tier, seed, wd, jobs=jobs)
    bad = [f for f in facts if verdicts[f["id"]] != ["T"]]
    for f in bad[:20]:
        path = common.write_replay(pid, {"property": pid, "wide_jobs": [j for j in jobs if j["id"] == f["job"]], "fact": f})
        log("VIOLATION property=%s replay=%s" % (pid, path))
    log("%s %s (wide replay): %d facts, %d violation(s); %.1fs" % (pid, tier, len(facts), len(bad), time.time() - t0))
    return 1 if bad else 0


def run(pid, tier, seed, replay):
    if pid in semprops.GENERATORS:
        extra = {}
        t_start = time.time()
        if replay and pid in WIDE:
            doc = json.load(open(replay))
            if "wide_jobs" in doc:
                return run_wide_only(pid, tier, seed, doc["wide_jobs"])
        if not replay and pid in WIDE:
            import wideprops
            common.build()
            wdw = common.workdir("%s-%s-wide" % (pid, tier))
            jobs, facts, verdicts, stats = wideprops.run_wide(tier, seed, wdw)
            bad = [f for f in facts if verdicts[f["id"]] != ["T"]]
            extra["_pre_violations"] = [({"property": pid, "wide_jobs": [j for j in jobs if j["id"] == f["job"]], "fact": f},
                                         "on a network with %s the result for colour %s, restricted to that colour, differs from the result on the instantiated network (%s vs %s states): %s"
                                         % ("2^%d+ coloured states" % 60, f["colour"], f.get("slice_states"), f.get("instantiated_states"), f["formula"][:120])) for f in bad]
            extra["beyond_explicit"] = {"module": "spec/Trace_Slice.tla", "networks": len({j["model"] for j in jobs}), "formulae": len(jobs),
                                        "facts": len(facts), "valid_colours_compared": sum(1 for f in facts if f["valid"]),
                                        "note": "parametrised result restricted to a colour vs result on the instantiated network, compared as BDDs "
                                                "(semantic equality) on networks with ~30 free constants (2^60+ coloured states)"}
            extra["_add_states"] = (stats["distinct"], stats["states"])
        if not replay:
            import evalmodel
            wd = common.workdir("%s-%s-model" % (pid, tier))
            common.build()
            if pid in (MODEL_A_THOROUGH if tier == "thorough" else MODEL_A_QUICK):
                g, d, nb = evalmodel.run(pid, tier, seed, wd)
                extra["mode_A_evaluator"] = {"module": "spec/MC_Evaluator.tla", "batches": nb, "states": d, "transitions": g,
                                             "invariants": "StateOK = ResultCorrect, ResultInUnit, BatchTransparent (alone, sharing disabled), CacheSound, ScopesBalanced, CountersSane, NeverPanics; liveness Finishes"}
            if pid in STEP_TRACES:
                st = evalmodel.run_step_traces(pid, tier, seed, wd)
                for cid, where, formulas in st["drift"][:10]:
                    log("NOTE model-drift property=%s trace %s: first differing step per call %s; batch %s" % (pid, cid, where, formulas))
                extra["step_level"] = {"module": "spec/Trace_Eval.tla", "traces": st["traced"], "accepted": st["accepted"],
                                       "hook_events": st["events"], "drift": [d[:2] for d in st["drift"][:10]],
                                       "note": "step-level disagreement is model drift (reported as NOTE), never a violation by itself"}
                ch = st["cache"]
                for cid, formulas in ch["drift"][:10]:
                    log("NOTE model-drift property=%s cache protocol: trace %s has no accepting behaviour of spec/Cache.tla; batch %s" % (pid, cid, formulas))
                extra["cache_protocol"] = {"module": "spec/Trace_Cache.tla over spec/Cache.tla", "traces": ch["traces"], "accepted": ch["accepted"],
                                           "hit_miss_save_events": ch["protocol_events"], "drift": [d[0] for d in ch["drift"][:10]],
                                           "note": "hook events consumed by the actions Hit / Miss / Save / Shortcut / Open / Close; the logged answer of the save rule must equal SaveRule of the model; invariants of the protocol evaluated in every state; rejection is model drift (NOTE)"}
                ma_c = common.mode_a("MC_Cache.tla", "MC_Cache.cfg", wd, workers=4)
                extra["mode_A_cache"] = {"module": "spec/MC_Cache.tla", "states": ma_c[1], "transitions": ma_c[0],
                                         "invariants": "CacheWithinMarked, CountersPositive, FetchBound, WildKept, CachedWasSaved, StackDistinct, StoredValuesPortable; every schedule of visits and of quantifier scopes over 3 keys + a wild-card"}
                # unbounded: TLAPS proof that the protocol keeps StoredValuesPortable (spec/CacheProofs.tla)
                import re as _re
                import shutil as _sh
                import subprocess as _sp
                pdir = os.path.join(wd, "tlaps-cache")
                os.makedirs(pdir, exist_ok=True)
                for fn in ("Cache.tla", "CacheProofs.tla"):
                    _sh.copy(os.path.join(common.SPEC, fn), pdir)
                try:
                    pr_ = _sp.run(["tlapm", "--threads", "4", "CacheProofs.tla"], cwd=pdir, capture_output=True, text=True, timeout=900)
                except _sp.TimeoutExpired:
                    raise ToolError("tlapm timed out on spec/CacheProofs.tla")
                mm_ = _re.search(r"All (\d+) obligations? proved", pr_.stdout + pr_.stderr)
                if not mm_:
                    raise ToolError("tlapm did not prove spec/CacheProofs.tla:\n" + (pr_.stdout + pr_.stderr)[-1500:])
                extra["proof_cache_protocol"] = {"module": "spec/CacheProofs.tla", "obligations": int(mm_.group(1)), "checker_cmd": "tlapm --threads 4 spec/CacheProofs.tla",
                                                 "theorem": "IndInv /\\ Next => IndInv' and IndInv => StoredValuesPortable for spec/Cache.tla, no bound on keys, scopes or schedule"}
                extra.setdefault("mode_A_evaluator", {})
                extra["_add_states"] = (st["distinct"] + ma_c[1], st["states"] + ma_c[0])
            if pid in PRIMITIVES:
                import relprops
                pr = relprops.run_primitives(tier, seed, wd)
                if "unavailable" in pr:
                    log("NOTE model-drift property=%s primitive-level replay unavailable: the harness for the crate's private primitives does not compile against this tree (%s)" % (pid, pr["unavailable"]))
                for d in pr["drift"][:10]:
                    log("NOTE model-drift property=%s primitive contracts: case %s unit_ok=%s primitives=%s" % ((pid,) + tuple(d)))
                extra["primitive_level"] = {"module": "spec/Trace_Rel.tla", "cases": pr["cases"], "primitive_calls": pr["ops"],
                                            "accepted_cases": pr["accepted"], "networks": pr["networks"], "primitives": pr["primitives"],
                                            "drift": [list(d) for d in pr["drift"][:10]], "unavailable": pr.get("unavailable"),
                                            "note": "every symbolic primitive called on arbitrary raw relations (also outside the unit set, also on "
                                                    "units restricted over the variable copies) and compared with its contract in spec/Rel.tla; "
                                                    "disagreement is model drift (NOTE), never a violation by itself"}
                a0 = extra.get("_add_states", (0, 0))
                extra["_add_states"] = (a0[0] + pr["distinct"], a0[1] + pr["states"])
        return run_sem(pid, tier, seed, replay, extra_cov=extra, t_start=t_start)
    raise ToolError("no check for %s" % pid)


# ----------------------------------------------------------------------------- front end
import synprops  # noqa: E402
import gen  # noqa: E402

ASSUME_SYN = [
    "character classes (alphanumeric / white space) are the ones Rust's char methods report; they are recorded by the harness",
    "the conventions the README leaves open are fixed in the header of spec/Syntax.tla",
]


def report(pid, tier, seed, t0, items, verdicts, judged, stats, level_cov, assumptions, replay_payload):
    """Common tail: map verdicts to violations, print lines, write evidence."""
    violations, judged_n, na = [], 0, 0
    for it in items:
        vs = verdicts.get(it["id"])
        if vs is None or len(vs) != len(it["kinds"]):
            raise ToolError("no verdict for %s" % it["id"])
        failed = [k for k, v in zip(it["kinds"], vs) if v == "F" and k in judged]
        judged_n += sum(1 for k, v in zip(it["kinds"], vs) if v in ("T", "F") and k in judged)
        na += sum(1 for k, v in zip(it["kinds"], vs) if v == "NA" and k in judged)
        if failed:
            violations.append((it, failed))
    for it, failed in violations[:20]:
        path = common.write_replay(pid, replay_payload(it, failed))
        log("VIOLATION property=%s replay=%s" % (pid, path))
        log("  judgement(s) %s failed on %s" % (failed, json.dumps({k: it[k] for k in ("text", "texts", "tree") if k in it})[:300]))
    if judged_n == 0:
        raise ToolError("vacuous run: no judgement applied")
    cov = {"states": max(1, stats["distinct"]), "transitions": max(1, stats["states"]),
           "traces_validated_against_impl": len(items), "judgements": judged_n, "judgements_not_applicable": na,
           "tlc_runs": stats["tlc_runs"], "exhaustive": False}
    cov.update(level_cov)
    common.write_evidence(pid, tier, seed, "model_checking", cov, time.time() - t0, len(violations), assumptions)
    log("%s %s: %d events, %d judgements, %d violation(s); %.1fs" % (pid, tier, len(items), judged_n, len(violations), time.time() - t0))
    return 1 if violations else 0


def run_syn_events(pid, tier, seed, items, judged, model="a -?? a\nb -?? a\n", module="Trace_Syn.tla", cfg="Trace_Syn.cfg",
                   cov=None, chunk=1200, extra=None):
    """items: harness `syn` items (with id, kind, kinds)."""
    t0 = time.time()
    common.build()
    d = common.workdir("%s-%s" % (pid, tier))
    inp = os.path.join(d, "items.json")
    with open(inp, "w") as f:
        json.dump({"model": model, "items": items}, f)
    outp = os.path.join(d, "events.json")
    common.harness(["syn", inp, outp], timeout=3600)
    doc = json.load(open(outp))
    events = doc["events"]
    docs = [{"net_vars": doc["net_vars"], "events": ch} for ch in common.chunks(events, chunk)]
    verdicts, stats = common.judge_events(module, cfg, docs, d, timeout=3600)
    byid = {e["id"]: e for e in events}
    samples = [{k: v for k, v in byid[it["id"]].items() if k in ("text", "tree", "plain_outcome", "ext_outcome", "ext_tree", "printed", "prep_outcome", "prep_tree")}
               for it in items[:3]]
    lc = {"samples": samples}
    lc.update(cov or {})
    if extra:
        add = extra.pop("_add", (0, 0))
        stats["distinct"] += add[0]
        stats["states"] += add[1]
        lc.update(extra)
    return report(pid, tier, seed, t0, items, verdicts, judged, stats, lc, ASSUME_SYN,
                  lambda it, failed: {"property": pid, "failed_judgements": failed, "model": model, "items": [it], "recorded": byid[it["id"]]})


def mode_a_syntax(tier, wd):
    """MC_Syntax: ImplParse = Parse on every token sequence up to the bound. Returns (generated, distinct, L)."""
    import concurrent.futures
    L = 5 if tier == "thorough" else 4
    parts = 23 if tier == "thorough" else 8

    def one(part):
        return common.run_tlc("MC_Syntax.tla", "MC_Syntax.cfg", os.path.join(wd, "meta-syn-%d" % part),
                              env={"SYN_L": str(L), "PARTS": str(parts), "PART": str(part)}, timeout=3400, xmx="4g")

    gs = ds = 0
    with concurrent.futures.ThreadPoolExecutor(max_workers=common.NPROC) as ex:
        for out, rc, wall in ex.map(one, range(parts)):
            if "No error has been found" not in out:
                raise ToolError("MC_Syntax: the parsing algorithm model and the grammar disagree (design-level counterexample):\n" + out[-3000:])
            g, d = common.tlc_counts(out)
            gs += g
            ds += d
    # the tokenizer: character-level algorithm vs word-based lexical grammar, all strings up to LL characters
    # plus the ASCII part of the generated strings
    LL = 5 if tier == "thorough" else 4
    lparts = 26 if tier == "thorough" else 8
    strs = [s for s in synprops.random_strings(random.Random(7), 4000 if tier == "thorough" else 800) if s.isascii() and "\r" not in s]

    def cls(ch):
        return "n" if (ch.isalnum() or ch == "_") else ("s" if ch in " \t\n\x0b\x0c" else "o")
    sf = os.path.join(wd, "lex-strings.json")
    json.dump([[{"c": ch, "k": cls(ch)} for ch in s] for s in strs], open(sf, "w"))

    def lone(part):
        env = {"LEX_L": str(LL), "PARTS": str(lparts), "PART": str(part)}
        if part == 0:
            env["STRFILE"] = sf
        return common.run_tlc("MC_Lex.tla", "MC_Lex.cfg", os.path.join(wd, "meta-lex-%d" % part), env=env, timeout=3400, xmx="4g")

    with concurrent.futures.ThreadPoolExecutor(max_workers=common.NPROC) as ex:
        for out, rc, wall in ex.map(lone, range(lparts)):
            if "No error has been found" not in out:
                raise ToolError("MC_Lex: the tokenizer algorithm model and the lexical grammar disagree (design-level counterexample):\n" + out[-3000:])
            g, d = common.tlc_counts(out)
            gs += g
            ds += d
    return gs, ds, L


def run_c05(tier, seed, replay):
    rng = random.Random(seed * 7919 + 5)
    extra_a = {}
    if not replay:
        common.build()
        wd_a = common.workdir("C05-%s-model" % tier)
        g, d, L = mode_a_syntax(tier, wd_a)
        extra_a = {"mode_A_syntax": {"module": "spec/MC_Syntax.tla", "token_sequences": d, "max_length": L,
                                     "invariant": "MC_Syntax: ImplParse = Parse, accepted trees re-parse to themselves from their token rendering; MC_Lex: ImplLex = Lex on all strings up to 4 / 5 characters over a 26-character alphabet plus generated ASCII strings, both languages"},
                   "_add": (d, g)}
    if replay:
        items = json.load(open(replay))["items"]
    else:
        texts = []
        maxlen = 4 if tier == "thorough" else 3
        texts += list(synprops.enumerate_token_strings(maxlen, 0))
        if tier == "thorough":
            texts += list(synprops.enumerate_token_strings(3, 1))
        else:
            texts += list(synprops.enumerate_token_strings(2, 1))
        n_enum = len(texts)
        texts += synprops.random_strings(rng, 20000 if tier == "thorough" else 3000)
        items = [{"id": "s%d" % i, "kind": "parse", "kinds": ["c05"], "text": s} for i, s in enumerate(texts)]
    return run_syn_events("C05", tier, seed, items, ["c05"], extra=extra_a,
                          cov={"rule": "all token sequences up to a length bound over a representative alphabet, rendered to text, plus seeded random / grammar-mutated / unicode strings; each judged by TLC: tokens = Syntax.Lex, tree = Syntax.Parse, in both languages"})


def run_c06(tier, seed, replay):
    rng = random.Random(seed * 7919 + 6)
    if replay:
        items = json.load(open(replay))["items"]
    else:
        items = []
        atoms = [T(), F(), P("a"), V("x"), W("w")]
        hyb = [("bind", "x", ""), ("jump", "x", ""), ("exists", "y", "d"), ("forall", "x", "")]
        size = 4 if tier == "thorough" else 3
        n = 0
        for s in range(1, size + 1):
            for t in synprops.all_trees(s, atoms, gen.UNARY if s <= 3 else ["not", "AG"],
                                        gen.BINARY_BOOL + gen.BINARY_TEMP if s <= 3 else ["and", "imp", "EU"], hyb):
                items.append({"id": "t%d" % n, "kind": "build", "kinds": ["c06build"], "tree": t})
                n += 1
        for i in range(4000 if tier == "thorough" else 600):
            t = synprops.random_tree(rng, rng.randint(2, 60 if i % 10 == 0 else 14))
            items.append({"id": "r%d" % i, "kind": "build", "kinds": ["c06build"], "tree": t})
        for i, s in enumerate(synprops.random_strings(rng, 6000 if tier == "thorough" else 1200)):
            items.append({"id": "p%d" % i, "kind": "parse", "kinds": ["c06parse"], "text": s})
    return run_syn_events("C06", tier, seed, items, ["c06build", "c06parse"],
                          cov={"rule": "all trees up to a size bound and seeded random deep trees built with the public constructors; trees produced by the parsers from random strings; stored text/height judged node by node against Syntax.Render/Height, print-parse round trip judged by TLC"})


from gen import T, F, P, V, W, U, B, H  # noqa: E402

_sem_run = run


def run(pid, tier, seed, replay):  # noqa: F811
    if pid == "C05":
        return run_c05(tier, seed, replay)
    if pid == "C06":
        return run_c06(tier, seed, replay)
    return _sem_run(pid, tier, seed, replay)


# ----------------------------------------------------------------------------- C07 / C09
def scoped_strings(rng, count):
    """Formula texts over variable names that collide with the internal ones, with and without
    binding errors, propositions in and outside the network {a, b}."""
    import copy
    out = []
    for i in range(count):
        fg = gen.FormulaGen(rng, ["a", "b"], wild=["p"], doms=["d"], p_wild=0.08, p_dom=0.3, p_quant=0.4, p_jump=0.2,
                            var_names=("x", "xx", "xxx", "y", "z"), max_nest=4,
                            binary=gen.BINARY_BOOL + ["EU", "AW"])
        f = fg.gen(rng.randint(2, 12))
        x = rng.random()
        nodes = list(gen.subformulas(f))
        if x < 0.15:
            t = rng.choice(nodes); t.clear(); t.update(V(rng.choice(["x", "xx", "q"])))     # possibly free
        elif x < 0.25:
            t = rng.choice(nodes); inner = dict(t); t.clear(); t.update(H("jump", rng.choice(["x", "y", "xx"]), inner))
        elif x < 0.35:
            qs = [n for n in nodes if n["op"] in gen.QUANT]
            if qs:
                q = rng.choice(qs); inner = dict(q["a"]); q["a"] = H(rng.choice(gen.QUANT), q["v"], inner)
        elif x < 0.45:
            # not network variables: other names, names of the symbolic encoding (spare copies, parameter variables),
            # case variants of the constants (legal proposition NAMES, but not variables of this network)
            t = rng.choice(nodes); t.clear(); t.update(P(rng.choice(["c", "A", "x", "a_", "a_extra_0", "b_extra_1", "a_extra_2", "f_a", "TRUE", "fAlse"])))
        out.append(synprops.render_min(f, rng) if rng.random() < 0.5 else gen.render(f))
    return out


def twin_strings(rng, count):
    """ONE sub-formula text occurring twice (or three times) at the SAME quantifier depth under DIFFERENT stacks of
    binders: the same names in permuted order, a binder replaced by another name (so that the twin has a free
    variable and the formula must be rejected), different quantifier kinds, optional domains."""
    import copy
    out = []
    names = ["a1", "b1", "x", "xx", "y", "s"]
    for i in range(count):
        k = rng.choice([1, 2, 2, 3])
        vs = rng.sample(names, k)
        bg = gen.FormulaGen(rng, ["a", "b"], p_quant=0.0, quant=[], p_jump=0.25, unary=["not", "EX", "AX", "EF", "AG"], binary=["and", "or", "EU"])
        body = None
        for _ in range(10):
            body = bg.gen(rng.randint(1, 4), scope=list(vs))
            if gen.free_vars(body):
                break
        parts = []
        for occ in range(rng.choice([2, 2, 3])):
            order = list(vs)
            x = rng.random()
            if x < 0.55:
                rng.shuffle(order)                      # permuted binders
            elif x < 0.75 and occ > 0:
                order[rng.randrange(k)] = rng.choice([n for n in names if n not in vs])   # the twin has a free variable
            f = copy.deepcopy(body)
            for v in order:
                f = H(rng.choice(["exists", "bind", "forall"]), v, f, "")
            parts.append(f)
        f = parts[0]
        for p_ in parts[1:]:
            f = B(rng.choice(["and", "or", "imp", "EU"]), f, p_)
        if rng.random() < 0.3:
            f = H(rng.choice(["exists", "bind"]), "w", B("and", f, V("w")), "")
        out.append(gen.render(f))
    return out


def run_c07(tier, seed, replay):
    rng = random.Random(seed * 7919 + 7)
    if replay:
        items = json.load(open(replay))["items"]
    else:
        items = []
        # all small trees over colliding names
        atoms = [P("a"), P("c"), V("x"), V("xx"), V("y")]
        hyb = [(q, v, "") for q in ("bind", "exists", "forall", "jump") for v in ("x", "xx", "y")]
        n = 0
        for s in range(1, (5 if tier == "thorough" else 4) + 1):
            for t in synprops.all_trees(s, atoms if s <= 3 else atoms[:1] + atoms[2:], ["AX"], ["and"] if s > 3 else ["and", "EU"], hyb):
                items.append({"id": "e%d" % n, "kind": "prep", "kinds": ["c07"], "text": gen.render(t)})
                n += 1
        for i, s in enumerate(scoped_strings(rng, 8000 if tier == "thorough" else 1500)):
            items.append({"id": "r%d" % i, "kind": "prep", "kinds": ["c07"], "text": s})
        for i, s in enumerate(twin_strings(rng, 3000 if tier == "thorough" else 600)):
            items.append({"id": "t%d" % i, "kind": "prep", "kinds": ["c07"], "text": s})
    extra = None
    if not replay:
        g, d = common.mode_a("MC_Scope.tla", "MC_Scope.cfg", common.workdir("C07-%s-model" % tier), env={"SCOPE_N": "4" if tier == "thorough" else "3"})
        extra = {"mode_A_scope": {"module": "spec/MC_Scope.tla", "states": d, "invariants": "RenameOK (alpha-equivalent, depth-named, minimal, idempotent) on all well-scoped trees up to the bound; CanonOK"}, "_add": (d, g)}
    return run_syn_events("C07", tier, seed, items, ["c07"], module="Trace_Scope.tla", cfg="Trace_Scope.cfg", extra=extra,
                          cov={"rule": "all trees up to a size bound over variable names colliding with the internal ones (x, xx, y), and seeded random formulae with injected binding errors; accepted <=> WellScoped and known propositions; result = Scope.Rename, alpha-equivalent (de Bruijn), depth-named, idempotent"})


def scope_skeleton_batch(rng):
    """Formulae over ONE skeleton - an outer binder (or two) around a conjunction of sibling binders - that differ only in
    WHICH variable the leaves mention: the outer variable first met inside an inner scope, the sibling's own variable,
    a second outer variable after the first sibling has closed.  Their sub-formulae are alpha-equivalent exactly when
    the leaves agree, which a canonical form must reflect (and its renaming must stay injective on free variables)."""
    un = lambda v: U(rng.choice(["AX", "EF", "AG", "AF", "EX"]), V(v))
    outer = rng.choice([["o1"], ["o1", "o2"]])
    out = []
    ops = [rng.choice(["and", "or", "EU"]) for _ in range(3)]
    qs = [rng.choice(["exists", "bind", "forall"]) for _ in range(4)]
    shape = rng.randrange(3)
    for _ in range(rng.choice([2, 3])):
        pick = lambda pool: rng.choice(pool)
        inner1 = H(qs[0], "i", B(ops[0], un("i"), un(pick(outer))))             # outer variable first met inside scope i
        if shape == 0:
            inner2 = H(qs[1], "i", un(pick(["i"] + outer)))                      # sibling binder: own or outer variable
            body = B(ops[1], inner1, inner2)
        elif shape == 1:
            body = B(ops[1], inner1, un(pick(outer)))                            # new free occurrence after the scope closed
        else:
            inner2 = H(qs[1], "j", B(ops[2], un("j"), un(pick(outer))))
            body = B(ops[1], inner1, B(ops[2], inner2, un(pick(outer))))
        f = body
        for v in reversed(outer):
            f = H(qs[2], v, f)
        out.append(f)
    return out


def run_c09(tier, seed, replay):
    import semprops
    rng = random.Random(seed * 7919 + 9)
    if replay:
        items = json.load(open(replay))["items"]
    else:
        items = []
        for i in range(1500 if tier == "thorough" else 260):
            fg = gen.FormulaGen(rng, ["a", "b"], wild=["p", "q"], doms=["d", "e"], p_dom=0.5, p_quant=0.35, p_jump=0.2,
                                var_names=("x", "y", "z", "xx", "zz"), patterns=0.05, max_nest=3)
            batch = semprops.overlapping_batch(rng, fg, rng.randint(1, 3))
            batch = [f for f in batch if gen.size(f) <= 16] or [fg.gen(6)]
            items.append({"id": "c%d" % i, "kind": "canon", "kinds": ["c09canon", "c09dups"], "texts": [gen.render(f) for f in batch]})
        for i in range(400 if tier == "thorough" else 80):
            items.append({"id": "k%d" % i, "kind": "canon", "kinds": ["c09canon", "c09dups"], "texts": [gen.render(f) for f in scope_skeleton_batch(rng)]})
    extra = None
    if not replay:
        g, d = common.mode_a("MC_Scope.tla", "MC_Scope.cfg", common.workdir("C09-%s-model" % tier), env={"SCOPE_N": "4" if tier == "thorough" else "3"})
        extra = {"mode_A_scope": {"module": "spec/MC_Scope.tla", "states": d, "invariants": "CanonOK: the canonisation algorithm of the code (Evaluator.Canon) identifies exactly the alpha-equal open sub-formulae of preprocessed trees, is idempotent and injective on free variables; all pairs up to the bound"}, "_add": (d, g)}
    return run_syn_events("C09", tier, seed, items, ["c09canon", "c09dups"], module="Trace_Scope.tla", cfg="Trace_Scope.cfg", chunk=40, extra=extra,
                          cov={"rule": "seeded lists of 1-3 formulae built to share sub-formulae up to renaming and under different domains; every pair of sub-formulae: canonical texts equal <=> Scope.AlphaEqOpen; renaming injective and consistent with the canonical text; duplicates: counter n => at least n+1 occurrences with identical domains (Scope.IsOccurrenceOf)"})


_run2 = run


def run(pid, tier, seed, replay):  # noqa: F811
    if pid == "C07":
        return run_c07(tier, seed, replay)
    if pid == "C09":
        return run_c09(tier, seed, replay)
    return _run2(pid, tier, seed, replay)


_run3 = run


def run(pid, tier, seed, replay):  # noqa: F811
    if pid in ("C16", "C17", "C19"):
        import cliprops
        return {"C16": cliprops.run_c16, "C17": cliprops.run_c17, "C19": cliprops.run_c19}[pid](tier, seed, replay)
    if pid == "C11":
        import lawprops
        return lawprops.run_c11(tier, seed, replay)
    return _run3(pid, tier, seed, replay)
