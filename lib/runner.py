"""Per-property orchestration: build, generate, drive the real code, let TLC judge, report."""
import json
import os
import random
import time

import common
from common import log, ToolError
import semprops

ASSUME_SEM = [
    "the network parsers and the variable-role accessors of biodivine-lib-param-bn are trusted "
    "(SymbolicContext::get_*_function_table, state_variables, extra_state_variables)",
    "explicit comparison is bounded: networks with n + parameter bits <= 9, formulae of bounded size and nesting",
    "spec/BoolNet.tla's valid-colour computation is cross-checked against the library's unit set on every network (tool error on mismatch)",
]


def known_match(pid, case, kinds_failed):
    """Return the known finding (status 'known') this failing case is an instance of, if any."""
    for k in common.load_known():
        if k.get("status") != "known" or k.get("property") != pid:
            continue
        m = k.get("match", {})
        texts = [t for c in case["calls"] for t in c.get("formulas", [])]
        if m.get("net") and m["net"] != case.get("net_model"):
            continue
        if m.get("formulas") and sorted(m["formulas"]) != sorted(texts):
            continue
        return k
    return None


def run_sem(pid, tier, seed, replay, gen_fn=None, extra_cov=None):
    t0 = time.time()
    common.build()
    d = common.workdir("%s-%s" % (pid, tier))
    rng = random.Random(seed * 1000003 + int(pid[1:]))
    if replay:
        doc = json.load(open(replay))
        nets, cases, judged = doc["nets"], doc["cases"], doc["judged"]
    else:
        gen_fn = gen_fn or semprops.GENERATORS[pid]
        nets, cases, judged = gen_fn(rng, common.probe_networks, tier)
    used = {c["net"] for c in cases}
    nets = [n for n in nets if n["id"] in used]
    jobs = os.path.join(d, "jobs.json")
    with open(jobs, "w") as f:
        json.dump({"nets": nets, "cases": cases}, f)
    common.harness(["sem", jobs, os.path.join(d, "out")], timeout=7200)
    files = [os.path.join(d, "out", n["id"] + ".json") for n in nets]
    verdicts, stats = common.judge_sem(files, timeout=3600 if tier == "thorough" else 1200)
    if stats["unit_mismatch"]:
        raise ToolError("specification and library disagree on the valid colours of %s" % stats["unit_mismatch"])
    recorded = {}
    for fp in files:
        doc = json.load(open(fp))
        for c in doc["cases"]:
            recorded[c["id"]] = (doc, c)
    violations, known_hits, na, judged_n = [], {}, 0, 0
    netmodel = {n["id"]: n for n in nets}
    for c in cases:
        vs = verdicts.get(c["id"])
        if vs is None or len(vs) != len(c["kinds"]):
            raise ToolError("no verdict for case %s" % c["id"])
        failed = [k for k, v in zip(c["kinds"], vs) if v == "F" and k in judged]
        na += sum(1 for k, v in zip(c["kinds"], vs) if v == "NA" and k in judged)
        judged_n += sum(1 for k, v in zip(c["kinds"], vs) if v in ("T", "F") and k in judged)
        if failed:
            doc, rc = recorded[c["id"]]
            rc = dict(rc)
            rc["net_model"] = netmodel[c["net"]]["model"]
            k = known_match(pid, rc, failed)
            if k:
                known_hits.setdefault(k["id"], (k, 0))
                known_hits[k["id"]] = (k, known_hits[k["id"]][1] + 1)
                continue
            violations.append((c, failed, rc))
    for kid, (k, n) in known_hits.items():
        log("KNOWN-FINDING: property=%s %s (%s; %d case(s))" % (pid, k["what"], kid, n))
    for c, failed, rc in violations[:20]:
        path = common.write_replay(pid, {"property": pid, "judged": judged, "failed_judgements": failed,
                                         "nets": [netmodel[c["net"]]], "cases": [c], "recorded": rc})
        log("VIOLATION property=%s replay=%s" % (pid, path))
        log("  judgement(s) %s failed on network %s: %s" % (failed, c["net"], [x["formulas"] for x in c["calls"]][:3]))
    if judged_n == 0:
        raise ToolError("vacuous run: no judgement applied")
    samples = []
    for c in cases[:3]:
        doc, rc = recorded[c["id"]]
        samples.append({"network": netmodel[c["net"]]["model"], "calls": [
            {"api": x["api"], "k": x["k"], "formulas": x["formulas"], "outcome": x.get("outcome"),
             "result_sizes": [len(r) for r in x.get("res", [])]} for x in rc["calls"]][:4],
            "verdict": dict(zip(c["kinds"], verdicts[c["id"]]))})
    cov = {
        "states": max(1, stats["distinct"]), "transitions": max(1, stats["states"]),
        "traces_validated_against_impl": len(cases),
        "samples": samples,
        "evaluations": sum(len(c["calls"]) for c in cases),
        "judgements": judged_n, "judgements_not_applicable": na,
        "networks": len(nets), "tlc_runs": stats["tlc_runs"],
        "rule": "seeded random networks (plus fixed constrained ones) x seeded random formulae; each recorded API call judged by TLC (spec/Trace_Sem.tla, judgements %s) against spec/Hctl.tla over spec/BoolNet.tla" % judged,
        "exhaustive": False,
    }
    if extra_cov:
        cov.update(extra_cov)
    common.write_evidence(pid, tier, seed, "model_checking", cov, time.time() - t0, len(violations), ASSUME_SEM)
    log("%s %s: %d cases, %d calls, %d judgements (%d n/a), %d violation(s), %d known; %.1fs" % (
        pid, tier, len(cases), cov["evaluations"], judged_n, na, len(violations), sum(n for _, n in known_hits.values()), time.time() - t0))
    return 1 if violations else 0


def run(pid, tier, seed, replay):
    if pid in semprops.GENERATORS:
        return run_sem(pid, tier, seed, replay)
    raise ToolError("no check for %s" % pid)
