"""C11: fixed-point laws, dualities, monotonicity -- mode A on all small Kripke structures,
explicit judgement on small networks, law replay on the bundled benchmark models."""
import concurrent.futures
import json
import os
import random
import time

import common
import gen
import semprops
from common import log, ToolError

BIG_QUICK = ["test/model-010-13var-2in.aeon", "test/model-022-17var-5in.aeon", "benchmark_models/griffin-models/griffin_model1.aeon"]
BIG_THOROUGH = BIG_QUICK + ["benchmark_models/griffin-models/griffin_model2.aeon",
                            "benchmark_models/pystablemotifs-models/myeloid.aeon",
                            "benchmark_models/pystablemotifs-models/cell_cycle_2016.aeon",
                            "benchmark_models/pystablemotifs-models/EMT.aeon"]


def mode_a_laws(wd, n, parts):
    """MC_Laws on all total Kripke structures with <= n states; returns (catalogue, states, distinct)."""
    out_json = os.path.join(wd, "laws.json")

    def one(part):
        env = {"LAWS_OUT": out_json if part == 0 else os.path.join(wd, "laws-%d.json" % part), "LAWS_N": str(n),
               "LAWS_PARTS": str(parts), "LAWS_PART": str(part)}
        return common.run_tlc("MC_Laws.tla", "MC_Laws.cfg", os.path.join(wd, "meta-laws-%d" % part), env=env, timeout=3000)

    st = [0, 0]
    with concurrent.futures.ThreadPoolExecutor(max_workers=common.NPROC) as ex:
        for out, rc, wall in ex.map(one, range(parts)):
            if "No error has been found" not in out:
                raise ToolError("MC_Laws: a law of the catalogue does not hold on small structures:\n" + out[-2500:])
            g, d = common.tlc_counts(out)
            st[0] += g
            st[1] += d
    return json.load(open(out_json)), st[0], st[1]


def run_c11(tier, seed, replay):
    import runner
    t0 = time.time()
    common.build()
    wd = common.workdir("C11-%s" % tier)
    rng = random.Random(seed * 7919 + 11)
    thorough = tier == "thorough"
    cat, sa, da = mode_a_laws(wd, 3 if thorough else 2, 16 if thorough else 4)
    laws = cat["laws"]
    oracles = cat["oracles"]
    # the saturation loop as written vs the least fixed point vs graph reachability, all argument pairs
    sat_nets = [("sat_osc", "a -| b\nb -> a\n$a: !b\n$b: a\n"), ("sat_steady", "a -?? a\nb -?? b\na -?? b\n$a: a\n$b: a & b\n"),
                ("sat_free", "a -> b\nb -?? b\n$b: a | b\na -?? a\n$a: a\n")]
    if thorough:
        sat_nets.append(("sat_ring3", "a -> b\nb -> c\nc -| a\n$a: !c\n$b: a\n$c: b\n"))

    def sat_one(item):
        sid, mdl = item
        pth = os.path.join(wd, sid + ".aeon")
        open(pth, "w").write(mdl)
        desc = json.loads(common.harness(["describe", "aeon", pth]))
        fp = os.path.join(wd, sid + ".json")
        json.dump({"net": desc}, open(fp, "w"))
        return common.run_tlc("MC_Saturation.tla", "MC_Saturation.cfg", os.path.join(wd, "meta-" + sid), env={"NETFILE": fp}, timeout=3000)

    with concurrent.futures.ThreadPoolExecutor(max_workers=4) as ex:
        for out, rc, wall in ex.map(sat_one, sat_nets):
            if "No error has been found" not in out:
                raise ToolError("MC_Saturation: the saturation loop model does not compute the least fixed point:\n" + out[-2500:])
            g, d = common.tlc_counts(out)
            sa += g
            da += d
    # ---- unbounded: TLAPS proofs of the next-step dualities / monotonicity / self-loop facts (spec/Proofs.tla)
    import re
    import shutil
    import subprocess
    pd = os.path.join(wd, "tlaps")
    os.makedirs(pd, exist_ok=True)
    shutil.copy(os.path.join(common.SPEC, "Proofs.tla"), pd)
    try:
        pr = subprocess.run(["tlapm", "--threads", "4", "Proofs.tla"], cwd=pd, capture_output=True, text=True, timeout=900)
        mm = re.search(r"All (\d+) obligations? proved", pr.stdout + pr.stderr)
        if not mm:
            raise ToolError("tlapm did not prove spec/Proofs.tla:\n" + (pr.stdout + pr.stderr)[-1500:])
        proved = int(mm.group(1))
    except subprocess.TimeoutExpired:
        raise ToolError("tlapm timed out on spec/Proofs.tla")
    # ---- small networks: both sides judged point-wise against the reference semantics
    sizes = [3] * (6 if thorough else 3) + ([4] * 2 if thorough else [2])
    nets = common.probe_networks(semprops.fixed_nets()) + semprops.network_pool(rng, common.probe_networks, sizes)
    cases = []
    for m in nets:
        for j in range(4 if thorough else 2):
            ctx = {l: semprops.rand_ctx_spec(rng) for l in ("S", "T", "R")}
            calls = []
            for i, law in enumerate(laws):
                k = max(gen.depth(law["lhs"]), gen.depth(law["rhs"]))
                calls.append(semprops.call("ext_dirty", [law["lhs"]], k, ids=[i + 1], ctx=ctx))
                calls.append(semprops.call("ext_dirty", [law["rhs"]], k, ids=[i + 1], ctx=ctx))
                # both sides once more in ONE batch (they share sub-formulae, for the binder laws up to renaming):
                # the cache must not make the two sides differ from each other or from the single evaluations
                calls.append(semprops.call("multi_ext_dirty", [law["lhs"], law["rhs"]], k, ids=[i + 1, i + 1], ctx=ctx))
            cases.append({"id": "%s-l%d" % (m["id"], j), "net": m["id"], "kinds": ["denote", "equal"], "calls": calls})
    jobs = os.path.join(wd, "jobs.json")
    json.dump({"nets": nets, "cases": cases}, open(jobs, "w"))
    common.harness(["sem", jobs, os.path.join(wd, "out")], timeout=7200)
    files = [os.path.join(wd, "out", n["id"] + ".json") for n in nets]
    verdicts, stats = common.judge_sem(files, timeout=3600)
    if stats["unit_mismatch"]:
        raise ToolError("specification and library disagree on valid colours")
    items = [{"id": c["id"], "kinds": c["kinds"], "text": "laws on small network %s" % c["net"]} for c in cases]
    # ---- benchmark-size models: law replay
    # Units (model, k, laws) run as separate processes in parallel. On the largest models only
    # laws without the classical fixed-point iterations (EG / AF / AU / EW) are cheap enough for
    # the quick tier; hybrid laws need a graph with one spare variable set and stay on 13 variables.
    EXPENSIVE = {"EG", "AF", "AU", "EW"}
    flat = [l for l in laws if gen.depth(l["lhs"]) == 0 and gen.depth(l["rhs"]) == 0]
    deep = [l for l in laws if max(gen.depth(l["lhs"]), gen.depth(l["rhs"])) >= 2]      # two-variable laws: need two spare variable sets
    hyb = [l for l in laws if l not in flat and l not in deep]
    cheap_flat = [l for l in flat if not (EXPENSIVE & (gen.ops(l["lhs"]) | gen.ops(l["rhs"])))]
    cheap_hyb = [l for l in hyb if l["id"] in ("steady_EX", "steady_AX", "pat_steady", "dom_exists", "dom_forall", "bind_jump", "exists_var",
                                                "forall_imp", "dual_forall", "dom_bind_leaf", "dom_exists_var", "dom_exists_and", "dom_forall_imp")]
    M010, M022 = "test/model-010-13var-2in.aeon", "test/model-022-17var-5in.aeon"
    MYE, CC = "benchmark_models/pystablemotifs-models/myeloid.aeon", "benchmark_models/pystablemotifs-models/cell_cycle_2016.aeon"
    units = [(M010, 0, flat, True), (M010, 1, hyb if thorough else cheap_hyb, False), (MYE, 0, flat, True), (CC, 0, flat, True),
             (MYE, 1, hyb, False), (MYE, 2, deep, False)]
    if thorough:
        units += [(M022, 0, ch, i == 0) for i, ch in enumerate(common.chunks(flat, 2))]
        for extra in ["EMT", "2176_T-LGL_Survival_Network_2008", "2161_Guard_Cell_Abscisic_Acid_Signaling", "TLGL_Large",
                      "2171_T_Cell_Receptor_Signaling", "2691_T-Cell_Signaling_2006"]:
            units.append(("benchmark_models/pystablemotifs-models/%s.aeon" % extra, 0, cheap_flat, True))
    else:
        units += [(M022, 0, cheap_flat, True)]

    # synthetic WIDE networks: many frozen inputs around a small dynamic core -- state spaces beyond
    # 2^53 (where floating-point cardinalities stop being exact) with tiny BDDs; "any size" in C11
    wide = []
    for wi, (n_in, core) in enumerate([(60, "$a: true\n$b: a\na -> b\n$c: b\nb -> c\n"),
                                       (58, "$a: !b\nb -| a\n$b: a\na -> b\n$c: b & i0\nb -> c\ni0 -> c\n")]):
        txt = "".join("i%d -> i%d\n$i%d: i%d\n" % (q, q, q, q) for q in range(n_in)) + core
        pth = os.path.join(wd, "wide-%d.aeon" % wi)
        open(pth, "w").write(txt)
        wide.append(pth)
        units.append((pth, 0, flat, True))

    # substitution laws (C10 beyond explicit semantics): %S% := the pre-computed result of the closed sub-formula
    substs = cat.get("substs", [])
    sub1 = [l for l in substs if gen.depth(l["rhs"]) <= 1]
    sub2 = [l for l in substs if gen.depth(l["rhs"]) == 2]
    units += [(MYE, 1, sub1, "subst"), (MYE, 2, sub2, "subst"), (M010, 1, sub1, "subst")]
    if thorough:
        units += [(CC, 1, [l for l in sub1 if not (EXPENSIVE & gen.ops(l["rhs"]))], "subst")]

    def replay_one(i_unit):
        i, (rel, k, ls_, with_oracles) = i_unit
        r2 = random.Random(seed * 31 + i)
        insts = []
        is_wide = rel in wide
        if with_oracles == "subst":
            for j, l in enumerate(ls_):
                args = {a: {"t": "randbool", "height": r2.choice([2, 3, 4]), "seed": r2.randrange(1 << 30)} for a in ("T", "R")}
                args["S"] = {"t": "formula", "f": gen.render(l["sub"])}
                insts.append({"id": "s%d" % j, "args": args, "laws": [{"id": l["id"], "lhs": gen.render(l["lhs"]), "rhs": gen.render(l["rhs"])}]})
        for j in range(0 if with_oracles == "subst" else ((3 if is_wide else 2) if thorough else (2 if is_wide else 1))):
            args = {l: {"t": "randbool", "height": r2.choice([2, 3, 4]), "seed": r2.randrange(1 << 30)} for l in ("S", "T", "R")}
            if is_wide:
                # a single state / all but a single state: iterations that move a handful of states
                args[("S", "T")[j % 2]] = {"t": ("cocube", "cube")[j % 2], "seed": r2.randrange(1 << 30)}
            if j == 1 and k >= 1:
                args["S"] = {"t": "formula", "f": "!{x}: AX {x}"}
            ls = [{"id": l["id"], "lhs": gen.render(l["lhs"]), "rhs": gen.render(l["rhs"])} for l in ls_]
            if with_oracles is True:
                ls += [{"id": o["id"], "lhs": gen.render(o["lhs"]), "oracle": o["oracle"]} for o in oracles]
            insts.append({"id": "i%d" % j, "args": args, "laws": ls})
        jp = os.path.join(wd, "big-%d.json" % i)
        json.dump({"model_path": os.path.join(common.REPO, rel), "k": k, "instances": insts}, open(jp, "w"))
        op = os.path.join(wd, "big-%d-facts.json" % i)
        try:
            common.harness(["laws", jp, op], timeout=1500 if thorough else 400)
        except Exception as e:  # time-out: the unit is reported as not explored, never as a verdict
            if not thorough:
                raise ToolError("law replay did not finish on %s: %s" % (rel, str(e)[:200]))
            return {"model": rel, "vars": None, "colors": None, "facts": [], "skipped": True, "k": k}
        doc = json.load(open(op))
        for f in doc["facts"]:
            f["id"] = "big%d-%s-%s" % (i, f["inst"], f["law"])
            f["model"] = rel
        doc["k"] = k
        return doc

    facts = []
    models_info = []
    with concurrent.futures.ThreadPoolExecutor(max_workers=common.NPROC) as ex:
        for doc in ex.map(replay_one, list(enumerate(units))):
            facts += doc["facts"]
            models_info.append({"model": doc["model"], "k": doc["k"], "vars": doc["vars"], "colors": doc["colors"], "facts": len(doc["facts"]),
                                "skipped_timeout": bool(doc.get("skipped"))})
    v2, st2 = common.judge_events("Trace_Laws.tla", "Trace_Laws.cfg", [{"facts": ch} for ch in common.chunks(facts, 400)], wd, key="facts")
    for f in facts:
        items.append({"id": f["id"], "kinds": ["law"], "text": "law %s on %s" % (f["law"], f["model"])})
    verdicts.update(v2)
    for k_ in ("states", "distinct", "tlc_runs"):
        stats[k_] += st2[k_]
    stats["states"] += sa
    stats["distinct"] += da
    byid = {f["id"]: f for f in facts}
    byid.update({c["id"]: c for c in cases})
    samples = [{"law": l["id"], "lhs": gen.render(l["lhs"]), "rhs": gen.render(l["rhs"])} for l in laws[:3]] + facts[:2]
    return runner.report("C11", tier, seed, t0, items, verdicts, ["denote", "equal", "law"], stats,
                         {"samples": samples, "laws": len(laws), "oracle_laws": len(oracles), "substitution_laws": len(substs), "big_models": models_info,
                          "obligations": proved, "discharged": proved, "checker_cmd": "tlapm --threads 4 spec/Proofs.tla",
                          "proofs": "TLAPS: AX/EX duality, monotonicity, distribution over union / intersection, self-loop identity, EU / EG unfolding steps, until with an empty argument, AX => EX and EX true on total structures, binder laws (bind_jump, exists_var, forall_imp, dom_bind_leaf, dom_exists_var/and, dom_forall_imp) and README domain equivalences, for arbitrary S and K",
                          "mode_A": {"structures_up_to_states": 3 if thorough else 2, "states": da,
                                     "modules": "MC_Laws (every law on all small Kripke structures), MC_Saturation (saturation loop as written = least fixed point = constrained backward reachability, all argument pairs on small networks)"},
                          "rule": "mode A: every law of spec/Laws.tla on all total Kripke structures up to the bound x all argument sets (TLC); small networks: both sides of every law evaluated through the API with random argument sets and judged against Hctl.Sat and equal; bundled benchmark models: the TLC-exported catalogue instantiated with pseudo-random argument sets, BDD equality logged and checked by spec/Trace_Laws.tla; EF/AG/EU also against reach_backward / trap_forward / Reachability::reach_bwd"},
                         runner.ASSUME_SEM + ["on benchmark-size models only agreement between two computations is checked (law replay), not agreement with the reference semantics"],
                         lambda it, failed: {"property": "C11", "failed_judgements": failed, "item": it, "recorded": byid.get(it["id"])})
