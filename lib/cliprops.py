"""C16 (archives) and C17 (command-line tool): generation, driving, TLC judging."""
import json
import os
import random
import re
import subprocess
import time

import common
import gen
import semprops
from common import log, ToolError
from gen import T, F, P, V, W, U, B, H

ANSI = re.compile(r"\x1b\[[0-9;]*m")
ASSUME_CLI = [
    "BDD text serialisation and zip framing are not modelled; they are observed only through the sets that are reloaded",
    "the network parsers of biodivine-lib-param-bn decide whether a model file is readable",
    "stdout is split into lines mechanically: 'Formula: ', '<n> results in total', '<n> unique colors', '<n> unique states', literal lists; everything else is unmodelled chatter",
]


def chars_of(strings):
    d = os.path.join(common.WORK, "chars-%d.json" % os.getpid())
    with open(d, "w") as f:
        json.dump(strings, f)
    out = json.loads(common.harness(["chars", d]))
    os.remove(d)
    return out


def formats_of(m, wd):
    """Texts of the same network in the formats the tool accepts (where expressible)."""
    p = os.path.join(wd, "conv.aeon")
    with open(p, "w") as f:
        f.write(m["model"])
    try:
        o = json.loads(common.harness(["convert", p]))
    except ToolError:
        return {"aeon": m["model"]}
    out = {"aeon": m["model"]}
    cand = [{"id": fmt, "model": o[fmt], "format": fmt} for fmt in ("bnet", "sbml") if o.get(fmt)]
    # a rendering is used only if the library builds a graph with a non-empty unit set from it (the bnet
    # rendering loses the regulation annotations and may be rejected: "x has no effect in y")
    for c in common.probe_networks(cand):
        out[c["id"]] = c["model"]
    return out


LABELS = ["p", "q", "res_1", "d", "Formula0", "x1"]
# result archives accept any label: dots, dashes, blanks
ARCHIVE_LABELS = LABELS + ["attractors.v2", "a.b.c", "formula-3", "res 1", ".hidden", "x.bdd", "sub/p", "old/res_1"]


def label_specs(rng, labels, inside=None):
    return {l: semprops.rand_ctx_spec(rng, inside_unit=(rng.random() < 0.7 if inside is None else inside)) for l in labels}


# ----------------------------------------------------------------------------- C16
def run_c16(tier, seed, replay):
    t0 = time.time()
    common.build()
    wd = common.workdir("C16-%s" % tier)
    rng = random.Random(seed * 7919 + 16)
    if replay:
        jobs = json.load(open(replay))["jobs"]
    else:
        sizes = [2] * (5 if tier == "thorough" else 3) + [3] * (5 if tier == "thorough" else 2)
        nets = common.probe_networks(semprops.fixed_nets()) + semprops.network_pool(rng, common.probe_networks, sizes)
        jobs = []
        per_net = 12 if tier == "thorough" else 4
        for m in nets:
            fm = formats_of(m, wd)
            for j in range(per_net):
                fmt = rng.choice(sorted(fm))
                labels = rng.sample(ARCHIVE_LABELS, rng.randint(0, 4))
                sets = label_specs(rng, labels)
                if labels and rng.random() < 0.5:
                    sets[labels[0]] = {"t": "formula", "f": gen.render(gen.FormulaGen(rng, m["vars"], quant=[]).gen(5))}
                k = rng.choice([0, 1, 2])
                formulae_gen = gen.FormulaGen(rng, m["vars"], wild=[l for l in labels if l in LABELS] or ["nolabel"], p_quant=0.0 if k == 0 else 0.2,
                                              max_nest=max(k, 1), quant=[] if k == 0 else gen.QUANT)
                formulae = [gen.render(formulae_gen.gen(rng.randint(1, 6))) for _ in range(rng.randint(0, 4))]
                wl = [l for l in labels if l in LABELS]       # labels that can be written as wild-cards
                fg = gen.FormulaGen(rng, m["vars"], wild=wl or ["nolabel"], p_quant=0.0 if k == 0 else 0.2, max_nest=max(k, 1), quant=[] if k == 0 else gen.QUANT)
                if wl:
                    a, b = rng.choice(wl), rng.choice(wl)
                    probe = "(%%%s%% & (EF (~%%%s%%))) | (AX %%%s%%)" % (a, b, a)
                else:
                    probe = "EF " + m["vars"][0]
                jobs.append({"id": "%s-%d" % (m["id"], j), "kinds": ["c16"], "model": fm[fmt], "format": fmt, "k": k,
                             "sets": sets, "formulae": formulae, "probe": probe,
                             # history: every third archive is written over an older, larger one at the same path
                             "overwrite": j % 3 == 1})
    if not replay:
        # archives written by the library's own driver (analysis::analyse_formulae): entry i must be the result of line i;
        # formula lists of mixed heights, deep formulae before shallow ones, repeated lines
        for m in nets:
            fm = formats_of(m, wd)
            for j in range(6 if tier == "thorough" else 2):
                fg = gen.FormulaGen(rng, m["vars"], p_quant=0.3, max_nest=2, patterns=0.1)
                fs = [fg.gen(rng.choice([1, 2, 6, 9])) for _ in range(rng.randint(2, 5))]
                fs.sort(key=lambda f: -gen.size(f) if j % 2 == 0 else rng.random())
                if rng.random() < 0.3:
                    fs.append(fs[0])
                texts = [gen.render(f) for f in fs]
                k = max([gen.depth(f) for f in fs] + [0])
                jobs.append({"id": "%s-a%d" % (m["id"], j), "kinds": ["c16"], "via_analyse": True, "model": fm["aeon"], "format": "aeon",
                             "k": k, "formulae": texts})
        # large sets (tens of thousands of BDD nodes, entries of hundreds of kilobytes) on a 24-variable ring
        for j in range(3 if tier == "thorough" else 1):
            jobs.append({"id": "big-%d" % j, "kinds": ["c16"], "big": True, "ring": 24, "k": 1,
                         "sets": {"big": {"height": 9 + j % 2, "seed": rng.randrange(1 << 30)}, "small": {"height": 3, "seed": rng.randrange(1 << 30)}},
                         "formulae": ["%big% & ~%small%", "EF %small%"], "probe": "%big% & (~%small%)"})
    jp = os.path.join(wd, "jobs.json")
    with open(jp, "w") as f:
        json.dump(jobs, f)
    outp = os.path.join(wd, "events.json")
    common.harness(["arch", jp, outp, os.path.join(wd, "zips")])
    events = json.load(open(outp))["events"]
    docs = [{"events": ch} for ch in common.chunks(events, 60)]
    verdicts, stats = common.judge_events("Trace_Arch.tla", "Trace_Arch.cfg", docs, wd)
    byid = {e["id"]: e for e in events}
    import runner
    samples = [{"format": e.get("format"), "k": e["k"], "labels": sorted(e.get("written", {})), "entries": e.get("back", {}).get("entries"),
                "formulae": e["formulae"]} for e in events[:3]]
    samples += [{"big": True, "bdd_nodes": e.get("bdd_nodes"), "archive_bytes": e.get("archive_bytes")} for e in events if e.get("big")][:1]
    return runner.report("C16", tier, seed, t0, jobs, verdicts, ["c16"], stats,
                         {"samples": samples, "rule": "seeded label->set maps (empty, unit, beyond the unit set, random, results of formulae) on networks given as aeon / bnet / sbml, k = 0..2; written with build_result_archive, entry list read from the zip directory, model re-parsed, graph rebuilt, load_bdd_bundle; explicit sets before/after and a wild-card probe judged equal by TLC (spec/Trace_Arch.tla)"},
                         ASSUME_CLI, lambda it, failed: {"property": "C16", "failed_judgements": failed, "jobs": [it], "recorded": byid[it["id"]]})


# ----------------------------------------------------------------------------- C17
def parse_stdout(text, net_vars):
    events = []
    for raw in text.splitlines():
        line = ANSI.sub("", raw).rstrip("\r")
        m = re.fullmatch(r"Formula: (.*)", line)
        if m:
            events.append({"ev": "formula", "text": m.group(1)})
            continue
        m = re.fullmatch(r"(\d+) results in total", line)
        if m:
            events.append({"ev": "results", "n": int(m.group(1))})
            continue
        m = re.fullmatch(r"(\d+) unique colors", line)
        if m:
            events.append({"ev": "colors", "n": int(m.group(1))})
            continue
        m = re.fullmatch(r"(\d+) unique states", line)
        if m:
            events.append({"ev": "states", "n": int(m.group(1))})
            continue
        lits = [x.strip() for x in line.strip().split("&") if x.strip()]
        if lits and line.strip().endswith("&") and all(re.fullmatch(r"~?[A-Za-z0-9_]+", x) for x in lits) and len(lits) == len(net_vars):
            s = 0
            ok = True
            for i, x in enumerate(lits):
                x = x.strip()
                name = x.lstrip("~")
                if name != net_vars[i]:
                    ok = False
                if not x.startswith("~"):
                    s += 1 << i
            if ok:
                events.append({"ev": "state", "state": s})
                continue
        events.append({"ev": "other", "line": line[:200]})
    return events


def formula_file(rng, formulas):
    """File content around the given formula texts: indentation, trailing blanks, comments, blank lines."""
    lines = []
    for f in formulas:
        while rng.random() < 0.35:
            lines.append(rng.choice(["", "   ", "\t", "# a comment", "  # indented comment", "#" + f, "#"]))
        lines.append(rng.choice(["", " ", "\t", "    "]) + f + rng.choice(["", " ", "  \t", "\r"]))
    while rng.random() < 0.3:
        lines.append(rng.choice(["", "  ", "# end"]))
    return lines


def run_c17(tier, seed, replay):
    t0 = time.time()
    common.build(need_bins=True)
    binp = os.path.join(common.BIN_DIR, "release", "hctl-model-checker")
    wd = common.workdir("C17-%s" % tier)
    rng = random.Random(seed * 7919 + 17)
    sizes = [2] * (5 if tier == "thorough" else 3) + [3] * (4 if tier == "thorough" else 2)
    nets = common.probe_networks(semprops.fixed_nets()) + semprops.network_pool(rng, common.probe_networks, sizes)
    per_net = 12 if tier == "thorough" else 4
    runs = []
    arch_jobs = []
    if replay:
        rp = json.load(open(replay))
        runs, arch_jobs, nets = rp["runs"], rp["arch_jobs"], []
    for m in nets:
        fm = formats_of(m, wd)
        for j in range(per_net):
            rid = "%s-%d" % (m["id"], j)
            fmt = rng.choice(sorted(fm))
            ext = rng.random() < 0.45
            labels = rng.sample(LABELS, rng.randint(1, 3)) if ext else []
            fg = gen.FormulaGen(rng, m["vars"], wild=labels if ext else (), doms=labels if ext else (), p_quant=0.3, patterns=0.08,
                                binary=gen.BINARY_BOOL + gen.BINARY_TEMP, max_nest=2)
            asts = [fg.gen(rng.randint(1, 8)) for _ in range(rng.randint(1, 4))]
            import synprops
            texts = [synprops.render_min(a, rng).replace("\n", " ") if rng.random() < 0.5 else gen.render(a) for a in asts]
            # every failure scenario is exercised in every run of the check (round-robin over the runs), the rest are ordinary runs
            SC = ["ok", "ok", "nested_label", "ok", "bad_formula", "ok", "missing_label", "ok", "wild_without_e", "ok", "nested_label", "no_model",
                  "ok", "bad_model", "ok", "bad_ext", "ok", "no_formulae", "ok", "bad_ctx", "ok", "missing_label"]
            scenario = SC[len(runs) % len(SC)]
            if scenario in ("nested_label", "missing_label", "bad_ctx") and not ext:
                ext = True
                labels = rng.sample(LABELS, rng.randint(1, 3))
                fg = gen.FormulaGen(rng, m["vars"], wild=labels, doms=labels, p_quant=0.3, p_wild=0.4, binary=gen.BINARY_BOOL + gen.BINARY_TEMP, max_nest=2)
                asts = [fg.gen(rng.randint(2, 8)) for _ in range(rng.randint(1, 3))] + [B("and", W(labels[0]), P(m["vars"][0]))]
                texts = [gen.render(a) for a in asts]
            if scenario == "bad_formula":
                texts[rng.randrange(len(texts))] = rng.choice(["a &", "(a", "AX {x}", "!{x}: !{x}: {x}", "nonvar", "a ~b", "EF"])
            if scenario == "wild_without_e":
                ext, labels = False, []
                texts.append("%p% & " + m["vars"][0])
            provided = list(labels)
            if scenario == "nested_label" and ext:
                used = sorted(set().union(*[gen.labels(a) for a in asts]))
                if used:
                    provided = [("sub/" + l if l == used[0] else l) for l in labels]
                else:
                    scenario = "ok"
            if scenario == "missing_label" and ext:
                used = sorted(set().union(*[gen.labels(a) for a in asts]) or {"zz"})
                if used == ["zz"]:
                    texts.append("%zz%")
                else:
                    provided = [l for l in labels if l != used[0]]
            k = max([gen.depth(a) for a in asts] + [0])
            run = {"id": rid, "kinds": ["c17"], "net": m, "fmt": fmt, "model_text": fm[fmt], "texts": texts, "scenario": scenario,
                   "lines": formula_file(rng, texts), "opt": rng.choice(["no-print", "summary", "summary", "with-progress", "exhaustive", "exhaustive"]),
                   "ext": ext, "labels": provided, "out": rng.random() < 0.6, "k": k}
            # history: some output paths already hold an older, larger archive (an earlier run with more results)
            if len(runs) % 3 == 0 and scenario != "ok":
                run["out"] = True                 # failing runs over an existing archive as well
            run["pre_out"] = bool(run["out"] and len(runs) % 3 == 0)
            if ext:
                arch_jobs.append({"id": rid, "model": fm[fmt], "format": fmt, "k": k, "sets": label_specs(rng, provided, inside=True), "formulae": []})
            runs.append(run)
    # context archives through the library
    ctx_sets = {}
    if arch_jobs:
        jp = os.path.join(wd, "ctx-jobs.json")
        json.dump(arch_jobs, open(jp, "w"))
        common.harness(["arch", jp, os.path.join(wd, "ctx-events.json"), os.path.join(wd, "ctx")])
        for e in json.load(open(os.path.join(wd, "ctx-events.json")))["events"]:
            if e["outcome"] != "ok":
                raise ToolError("could not build context archive: %s" % e.get("msg"))
            ctx_sets[e["id"]] = e["written"]
    # library-side reference results
    sem_nets, sem_cases = [], []
    for run in runs:
        nid = "n_" + run["id"]
        sem_nets.append({"id": nid, "model": run["model_text"], "format": run["fmt"]})
        ctx = {l: {"t": "tuples", "v": v} for l, v in ctx_sets.get(run["id"], {}).items()}
        sem_cases.append({"id": run["id"], "net": nid, "kinds": [], "calls": [
            {"api": "multi_ext_dirty" if run["ext"] else "multi_dirty", "k": run["k"], "formulas": run["texts"], "asts": [], "ids": [], "ctx": ctx}]})
    jp = os.path.join(wd, "sem-jobs.json")
    json.dump({"nets": sem_nets, "cases": sem_cases}, open(jp, "w"))
    common.harness(["sem", jp, os.path.join(wd, "sem")])
    # run the binary
    events = []
    all_lines = []
    for run in runs:
        all_lines.extend(run["lines"])
    cls = chars_of(all_lines)
    pos = 0
    for run in runs:
        rd = os.path.join(wd, "run-" + run["id"])
        os.makedirs(rd)
        sc = run["scenario"]
        mp = os.path.join(rd, "model." + ("txt" if sc == "bad_ext" else run["fmt"]))
        if sc != "no_model":
            with open(mp, "w") as f:
                f.write("this is ! not a model ->" if sc == "bad_model" else run["model_text"])
        fp = os.path.join(rd, "formulae.txt")
        if sc != "no_formulae":
            with open(fp, "w") as f:
                f.write("\n".join(run["lines"]) + ("\n" if rng.random() < 0.7 else ""))
        args = [binp, mp, fp, "-p", run["opt"]]
        outzip = os.path.join(rd, "out", "results.zip")
        if run["out"]:
            args += ["-o", outzip]
            if run.get("pre_out"):
                import zipfile
                os.makedirs(os.path.dirname(outzip), exist_ok=True)
                with zipfile.ZipFile(outzip, "w", zipfile.ZIP_STORED) as z:
                    z.writestr("model.aeon", "old_a -> old_b\n" * 50)
                    z.writestr("formulae.txt", "\n".join("EF old_%d" % i for i in range(60)))
                    for i in range(40):
                        z.writestr("formula-%d.bdd" % (i + 50), "|0,0,0|1,1,1|" + "7,0,1|" * 400)
        if run["ext"]:
            cp = os.path.join(wd, "ctx", run["id"] + ".zip")
            if sc == "bad_ctx":
                cp = os.path.join(rd, "notazip.zip")
                open(cp, "w").write("plain text")
            args += ["-e", cp]
        import hashlib
        digest = lambda pth: hashlib.sha256(open(pth, "rb").read()).hexdigest() if os.path.exists(pth) else None
        before = digest(outzip)
        try:
            pr = subprocess.run(args, capture_output=True, text=True, timeout=600)
        except subprocess.TimeoutExpired:
            raise ToolError("hctl-model-checker did not terminate within 600 s: %s" % " ".join(args[1:]))
        after = digest(outzip)
        sem_doc = json.load(open(os.path.join(wd, "sem", "n_" + run["id"] + ".json")))
        call = sem_doc["cases"][0]["calls"][0]
        lib = call.get("res", []) if call["outcome"] == "ok" else []
        net_vars = sem_doc["net"]["vars"]
        ev = {"id": run["id"], "kinds": ["c17"], "scenario": sc, "args": args[1:],
              "model_ok": sc not in ("no_model", "bad_model", "bad_ext"), "file_ok": sc != "no_formulae",
              "lines": cls[pos:pos + len(run["lines"])], "raw_lines": run["lines"], "opt": run["opt"], "ext": run["ext"],
              "ctx_ok": sc != "bad_ctx", "ctx_labels": sorted(run["labels"]), "out": run["out"], "net_vars": net_vars,
              "lib": lib, "lib_outcome": call["outcome"], "k": run["k"], "net_in": sem_doc["net"],
              "events": parse_stdout(pr.stdout, net_vars), "exit": pr.returncode,
              "panicked": "panicked" in pr.stderr or "panicked" in pr.stdout,
              "said_something": bool(pr.stdout.strip()), "stderr": pr.stderr[-300:], "arch_ok": False, "arch": {},
              # history of the output path: an older archive was there before the run; is it untouched afterwards
              "pre_out": bool(run.get("pre_out")), "old_kept": before is not None and before == after}
        pos += len(run["lines"])
        if run["out"] and os.path.exists(outzip):
            try:
                ev["arch"] = json.loads(common.harness(["readarch", outzip, str(run["k"])]))
                ev["arch_ok"] = True
            except ToolError as e:
                ev["arch_error"] = str(e)[:300]
        events.append(ev)
    docs = [{"events": ch} for ch in common.chunks(events, 25)]
    verdicts = {}
    stats = {"states": 0, "distinct": 0, "tlc_runs": 0, "tlc_wall": 0.0}
    import concurrent.futures

    def one(x):
        i, doc = x
        pth = os.path.join(wd, "cli-%d.json" % i)
        json.dump(doc, open(pth, "w"))
        return doc, common.run_tlc("Trace_Cli.tla", "Trace_Cli.cfg", os.path.join(wd, "meta-cli-%d" % i), env={"CASEFILE": pth}, timeout=1800)

    with concurrent.futures.ThreadPoolExecutor(max_workers=common.NPROC) as ex:
        for doc, (out, rc, wall) in ex.map(one, list(enumerate(docs))):
            if "Model checking completed" not in out:
                raise ToolError("TLC failed on CLI traces:\n" + out[-3000:])
            g, d = common.tlc_counts(out)
            stats["states"] += g
            stats["distinct"] += d
            stats["tlc_runs"] += 1
            found = dict(common.VERDICT_RE.findall(out))
            for e in doc["events"]:
                verdicts[e["id"]] = ["T"] if e["id"] in found else ["F"]
    ga, da = common.mode_a("MC_Cli.tla", "MC_Cli.cfg", wd, workers=4)
    stats["states"] += ga
    stats["distinct"] += da
    # unbounded: TLAPS proof of the safety properties of the control skeleton (spec/CliMachineProofs.tla); MC_Cli checks
    # (RefInit, RefStep) that Cli.tla refines that skeleton
    import shutil
    pdir = os.path.join(wd, "tlaps-cli")
    os.makedirs(pdir, exist_ok=True)
    for fn in ("CliMachine.tla", "CliMachineProofs.tla"):
        shutil.copy(os.path.join(common.SPEC, fn), pdir)
    try:
        prf = subprocess.run(["tlapm", "--threads", "4", "CliMachineProofs.tla"], cwd=pdir, capture_output=True, text=True, timeout=900)
    except subprocess.TimeoutExpired:
        raise ToolError("tlapm timed out on spec/CliMachineProofs.tla")
    mm = re.search(r"All (\d+) obligations? proved", prf.stdout + prf.stderr)
    if not mm:
        raise ToolError("tlapm did not prove spec/CliMachineProofs.tla:\n" + (prf.stdout + prf.stderr)[-1500:])
    proof_cli = {"module": "spec/CliMachineProofs.tla", "obligations": int(mm.group(1)), "checker_cmd": "tlapm --threads 4 spec/CliMachineProofs.tla",
                 "theorem": "Spec => [](InOrder /\\ FailQuiet /\\ FailKeepsOld /\\ Replaced /\\ Complete) for spec/CliMachine.tla, any number of formulae; refinement Cli.tla -> CliMachine.tla checked by TLC in MC_Cli"}
    byid = {e["id"]: e for e in events}
    import runner
    import collections
    hist = collections.Counter((e["scenario"], e["opt"]) for e in events)
    samples = [{"args": e["args"], "scenario": e["scenario"], "formula_file": e["raw_lines"], "stdout_events": e["events"][:12], "exit": e["exit"]} for e in events[:3]]
    return runner.report("C17", tier, seed, t0, [{"id": e["id"], "kinds": ["c17"], "text": " ".join(e["args"])} for e in events], verdicts, ["c17"], stats,
                         {"samples": samples, "scenarios": {"%s/%s" % k: v for k, v in hist.items()},
                          "mode_A_cli": {"module": "spec/MC_Cli.tla", "states": da, "invariants": "InOrder, FailQuiet, FailKeepsOld, Replaced, Complete; liveness Terminates; refinement of spec/CliMachine.tla (RefInit, RefStep)"},
                          "proof_cli_skeleton": proof_cli,
                          "rule": "seeded runs of the hctl-model-checker binary built from the working tree: model as aeon / bnet / sbml, formula files with comment / blank / indented lines, every print option, optional -o and -e archives, and failure scenarios; stdout lines consumed path-wise by TLC against the state machine of spec/Cli.tla (spec/Trace_Cli.tla); a run without an accepting state is rejected"},
                         ASSUME_CLI, lambda it, failed: {"property": "C17", "failed_judgements": failed, "recorded": byid[it["id"]],
                                                         "runs": [r for r in runs if r["id"] == it["id"]],
                                                         "arch_jobs": [j for j in arch_jobs if j["id"] == it["id"]]})


# ----------------------------------------------------------------------------- C19
def conv_networks(rng, count):
    """aeon networks with implicit and explicit uninterpreted functions of arity <= 3, including
    variable names that end in _0 / _1 / _ (plausible in real models)."""
    out = []
    name_pools = [["a", "b", "c"], ["b", "b_1", "b_0"], ["x_", "x", "y"], ["v1", "v1_0", "v1_1"], ["g", "g_", "g_1"], ["n_0", "n_1", "m"]]
    for i in range(count):
        names = rng.choice(name_pools)[:rng.choice([2, 3, 3])]
        out.append(gen.rand_network(rng, len(names), max_pbits=12, names=names, p_implicit=0.5, p_param=0.6))
    # names that collide with synthetic constants of an uninterpreted function, which is applied several times
    for i in range(max(4, count // 6)):
        clash = rng.choice(["f_1", "f_0", "f_", "f_10", "g_1", "t_1"])
        fn = rng.choice(["f(a) & !f(b)", "f(a) | f(%s)" % clash, "f(a, b) ^ f(b, a)", "(f(a) => g(b)) & (g(a) | f(b))", "f(a) & f(a) & !f(b)"])
        regs = "a -?? t\nb -?? t\n" + ("%s -?? t\n" % clash if clash in fn else "t -?? %s\n" % clash)
        extra = rng.choice(["", "a -> b\n", "$a: g(b)\nb -?? a\n", "b -?? a\n"])
        out.append(regs + "$t: " + fn + "\n" + extra)
    # arguments of an uninterpreted function that are expressions, constants or nested applications
    for i in range(max(4, count // 8)):
        fn = rng.choice(["f(g(a))", "f(!a, b)", "f(a & b)", "f(a, true)", "f(g(a), g(b))", "g(f(a, b))", "f(a | b, !b) & !f(b, a)", "f(false) | a", "f(g(b)) ^ g(a)",
                         "f(true, a) & !f(b, a)", "f(a, false) | f(a, b)", "f(true) ^ f(a)", "f(false, b) => f(a, b)"])
        out.append("a -?? t\nb -?? t\n$t: " + fn + "\n" + rng.choice(["", "a -> b\n", "t -| a\n"]))
    out += ["b_1 -> b\nb_0 -> b_1\nb -> b_0\n", "a -> b\n$b: f(a)\n$a: k\n", "a -?? a\n$a: f(a, a) | !g(a)\nb -> a\n",
            "a -> c\nb -| c\nc -? a\n$b: true\n", "a -> b\n$b: f(a) & f(!a)\n$a: a\na -?? a\n"]
    return out


def run_c19(tier, seed, replay):
    t0 = time.time()
    common.build(need_bins=True)
    binp = os.path.join(common.BIN_DIR, "release", "convert-aeon-to-bnet")
    wd = common.workdir("C19-%s" % tier)
    rng = random.Random(seed * 7919 + 19)
    if replay:
        models = [e["model"] for e in json.load(open(replay))["items"]]
    else:
        models = conv_networks(rng, 400 if tier == "thorough" else 60)
    cand = [{"id": "c%d" % i, "model": m, "format": "aeon"} for i, m in enumerate(models)]
    # only inputs the aeon parser accepts (the unit set is irrelevant for the converter)
    okset = set()
    for c in cand:
        p = os.path.join(wd, c["id"] + ".aeon")
        open(p, "w").write(c["model"])
        try:
            c["net_in"] = json.loads(common.harness(["describe", "aeon", p]))
            okset.add(c["id"])
        except ToolError:
            pass
    events, items = [], []
    for c in cand:
        if c["id"] not in okset:
            continue
        n_in = c["net_in"]
        bits = sum(2 ** p_["arity"] for p_ in n_in["params"]) + sum(2 ** len(f["regs"]) for f in n_in["fns"] if f["op"] == "implicit")
        if bits > 12 or len(n_in["vars"]) > 4 or any(p_["arity"] > 3 for p_ in n_in["params"]):
            continue
        try:
            pr = subprocess.run([binp], input=c["model"], capture_output=True, text=True, timeout=120)
        except subprocess.TimeoutExpired:
            # not a statement about the family of functions (the property): reported as a tool error (exit 2)
            raise ToolError("the converter did not terminate within 120 s on the %d-variable model %r" % (len(n_in.get("vars", [])), c["model"][:200]))
        ev = {"id": c["id"], "kinds": ["c19"], "model": c["model"], "net_in": n_in, "exit": pr.returncode,
              "panicked": "panicked" in pr.stderr, "stderr": pr.stderr[-300:], "stdout": pr.stdout[-2000:],
              "reload_ok": False, "net_out": n_in}
        if pr.returncode == 0:
            op = os.path.join(wd, c["id"] + ".bnet")
            open(op, "w").write(pr.stdout)
            try:
                ev["net_out"] = json.loads(common.harness(["describe", "bnet", op]))
                ev["reload_ok"] = True
            except ToolError as e:
                ev["reload_error"] = str(e)[:300]
        events.append(ev)
        items.append({"id": c["id"], "kinds": ["c19"], "text": c["model"], "model": c["model"]})
    docs = [{"events": ch} for ch in common.chunks(events, 20)]
    verdicts, stats = common.judge_events("Trace_Conv.tla", "Trace_Conv.cfg", docs, wd)
    # mode A: the algorithm model reaches exactly all functions (arity 0..3)
    conv_n = 4 if tier == "thorough" else 3
    out, rc, wall = common.run_tlc("MC_Converter.tla", "MC_Converter.cfg", os.path.join(wd, "meta-mc"), env={"CONV_N": str(conv_n)}, xmx="8g")
    if "No error has been found" not in out:
        raise ToolError("MC_Converter failed:\n" + out[-2000:])
    g, d = common.tlc_counts(out)
    stats["states"] += g
    stats["distinct"] += d
    # unbounded: one Shannon level is surjective and injective for arbitrary argument sets (spec/Proofs.tla, TLAPS)
    import shutil
    pd = os.path.join(wd, "tlaps")
    os.makedirs(pd, exist_ok=True)
    shutil.copy(os.path.join(common.SPEC, "Proofs.tla"), pd)
    try:
        pr = subprocess.run(["tlapm", "--threads", "4", "Proofs.tla"], cwd=pd, capture_output=True, text=True, timeout=900)
    except subprocess.TimeoutExpired:
        raise ToolError("tlapm timed out on spec/Proofs.tla")
    mm = re.search(r"All (\d+) obligations? proved", pr.stdout + pr.stderr)
    if not mm:
        raise ToolError("tlapm did not prove spec/Proofs.tla:\n" + (pr.stdout + pr.stderr)[-1500:])
    proved = int(mm.group(1))
    byid = {e["id"]: e for e in events}
    import runner
    samples = [{"input": e["model"], "output": e["stdout"], "exit": e["exit"]} for e in events[:3]]
    return runner.report("C19", tier, seed, t0, items, verdicts, ["c19"], stats,
                         {"samples": samples, "obligations": proved, "discharged": proved, "checker_cmd": "tlapm --threads 4 spec/Proofs.tla",
                          "proofs": "TLAPS: ShannonStep, ShannonSurjective, ShannonInjective (one level of Converter.Explode reaches every function of (a, x) by exactly one pair of cofactors, arbitrary x-sets)", "mode_A": "MC_Converter: Explode reaches every function exactly once for arity 0..%d" % conv_n,
                          "rule": "seeded aeon networks (<= 3 variables, arity <= 3, implicit and explicit unknown functions nested in expressions and shared between targets, names ending in _0/_1/_) piped through the convert-aeon-to-bnet binary; input and re-loaded output as data; TLC computes for each target the set of truth tables reached over all valuations of the fresh constants and compares it with the set of instantiations of the input function (spec/Converter.tla Related)"},
                         ASSUME_CLI[1:2] + ["the bnet parser of biodivine-lib-param-bn re-loads the output"],
                         lambda it, failed: {"property": "C19", "failed_judgements": failed, "items": [it], "recorded": byid[it["id"]]})
