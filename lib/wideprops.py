"""C20 beyond explicit semantics (spec/Trace_Slice.tla): networks with ~30 free constants around a small
parametrised core (2^30+ colours x 2^30+ states: coloured sets far beyond 2^53 pairs, instantiated networks
still exactly countable), closed formulae whose fixed points change by a handful of pairs per iteration
(cubes / co-cubes over all variables), a few colours each.  The harness records BDD-level facts; TLC judges."""
import json
import os
import random

import common
from common import ToolError

CORES = [
    ("c0 -?? sink\nc1 -?? sink\n", []),                       # constants only
    # (text, core variables); c0, c1 are two of the free constants
    ("x -> y\nc0 -> y\n$y: x & c0\ny -| x\nc1 -> x\n$x: !y | c1\nx -?? z\n", ["x", "y", "z"]),
    ("x -?? x\nc0 -?? x\n$x: x | c0\nx -> y\nc1 -?? y\n", ["x", "y"]),
    ("x -| x\nc0 -> x\n$x: !x & c0\nc1 -?? y\ny -?? y\n$y: y & f(c1)\n", ["x", "y"]),
]


def wide_jobs(rng, tier):
    jobs = []
    n_jobs = 4 if tier == "quick" else 16
    for j in range(n_jobs):
        n = rng.randint(27, 33)
        core, cvars = CORES[j % len(CORES)]
        consts = ["c%d" % i for i in range(n)]
        model = core + "".join("%s -?? sink\n" % c for c in consts[2:]) + "$sink: " + " | ".join(consts[2:]) + "\n"
        allv = consts + cvars + ["sink"]
        # the constants of the cube all have ONE polarity, so that the cube is the state which the colours
        # "every constant true" / "every constant false" drive the constants to, whatever the order of the
        # parameter bits: fixed points over it need about n iterations that change a handful of pairs each
        pos = j % 3 != 2
        lits = [(v if pos else "~" + v) for v in consts] + [v if rng.random() < 0.5 else "~" + v for v in cvars + ["sink"]]
        if j % 4 == 1:
            lits = lits[:n]                       # constants only
        cube = " & ".join(lits)
        part = " & ".join(rng.sample(lits[:n], n // 2))
        forms = ["AF (%s)" % cube, "EG ~(%s)" % cube, "AG EF (%s)" % cube, "EF (%s)" % cube, "AF (%s)" % part, "EG ~(%s)" % part,
                 "(%s) AU (%s)" % (part, cube), "(~(%s)) EW (%s)" % (cube, part), "EX (%s)" % cube, "AX ~(%s)" % cube,
                 "!{s}: AX {s}", "!{s}: AG EF {s}", "3{s}: @{s}: (AG EF {s} & (%s))" % part, "AG ~(%s)" % cube, "(~(%s)) AW (%s)" % (cube, part)]
        f = forms[(j * 7 + rng.randrange(3)) % len(forms)]
        pb = n + 6
        colours = [0, (1 << pb) - 1] + [rng.randrange(1 << pb) for _ in range(2)]
        jobs.append({"id": "wide%d" % j, "model": model, "k": 1 if "{" in f else 0, "formula": f, "colours": colours})
        # the same network with the formulae of the fixed-point family, always
        ccube = " & ".join(lits[:n])               # the constants only: reached from everywhere under the matching colour
        for gi, g in enumerate(["AF (%s)" % ccube, "EG ~(%s)" % ccube]):
            if (j + gi) % 2 == 0 or tier != "quick":
                jobs.append({"id": "wide%d-fp%d" % (j, gi), "model": model, "k": 0, "formula": g, "colours": colours})
    return jobs


def run_wide(tier, seed, wd, jobs=None):
    """returns (facts, verdicts, stats)"""
    rng = random.Random(seed * 48271 + 20)
    jobs = jobs or wide_jobs(rng, tier)
    jp = os.path.join(wd, "wide-jobs.json")
    json.dump(jobs, open(jp, "w"))
    doc = json.loads(common.harness(["wideslice", jp], timeout=3000))
    for f in doc["facts"]:
        if f.get("outcome") == "toolerr":
            raise ToolError("wide slice: %s" % f.get("msg"))
        f["colour"] = str(f["colour"])          # (beyond TLC's 32-bit integers; the judge does not compute with it)
    verdicts, stats = common.judge_events("Trace_Slice.tla", "Trace_Slice.cfg", [doc], wd, key="facts")
    if not any(f["valid"] for f in doc["facts"]):
        raise ToolError("wide slice: no valid colour exercised")
    return jobs, doc["facts"], verdicts, stats
