#!/usr/bin/env python3
"""A small scripted mutation campaign (DESIGN 5.4 b): simple, compiling edits of /repo, each applied to the
working tree, run against the existing 55 tests and against the named checks (quick tier), then undone.
Results go to /verif/seeded/campaign.json / campaign.md. Nothing is ever committed to /repo.

usage: python3 lib/mutants.py [name-substring ...]"""
import json
import os
import subprocess
import sys

REPO = "/repo"
M = []


def mut(name, file, old, new, checks, note=""):
    M.append(dict(name=name, file=file, old=old, new=new, checks=checks, note=note))


E = "src/evaluation/hctl_operators_eval.rs"
A = "src/evaluation/algorithm.rs"
L = "src/evaluation/low_level_operations.rs"
MD = "src/evaluation/mark_duplicates.rs"
CN = "src/evaluation/canonization.rs"
P = "src/preprocessing/parser.rs"
TK = "src/preprocessing/tokenizer.rs"
U = "src/preprocessing/utils.rs"
HT = "src/preprocessing/hctl_tree.rs"
MC = "src/model_checking.rs"
MU = "src/mc_utils.rs"
AN = "src/analysis.rs"
RP = "src/result_print.rs"
GO = "src/generate_output.rs"
LI = "src/load_inputs.rs"
CV = "src/bin/convert_aeon_to_bnet.rs"

mut("ex-drops-steady-states", E, "graph.pre(phi).union(&phi.intersect(self_loop_states))", "graph.pre(phi)", ["C01", "C11"])
mut("eg-iterates-with-union", E, "old_set = old_set.intersect(&eval_ex(graph, &old_set, self_loop_states));\n        progress_callback(&old_set, \"Computing GFP.\");",
    "old_set = old_set.union(&eval_ex(graph, &old_set, self_loop_states)).intersect(phi);\n        progress_callback(&old_set, \"Computing GFP.\");", ["C01", "C11"])
mut("au-uses-ex", E, "old_set = old_set.union(&phi1.intersect(&eval_ax(graph, &old_set, self_loop_states)));", "old_set = old_set.union(&phi1.intersect(&eval_ex(graph, &old_set, self_loop_states)));", ["C01", "C11"])
mut("jump-projects-variable", E, "    // now lets project out the bdd vars coding variables from the Boolean network\n    project_out_bn_vars(graph, &intersection)",
    "    // now lets project out the bdd vars coding variables from the Boolean network\n    project_out_hctl_var(graph, &intersection, var_name)", ["C01"])
mut("forall-negates-in-outer-graph", A, "&eval_neg(graph_to_propagate, child_evaluated),", "&eval_neg(graph, child_evaluated),", ["C02"])
mut("empty-domain-forall-false", A, "                            // forall\n                            _ => graph.mk_unit_colored_vertices(),\n                        };", "                            // forall\n                            _ => graph.mk_empty_colored_vertices(),\n                        };", ["C02"])
mut("body-on-unrestricted-graph", A, "                    let child_eval = eval_node(\n                        *child,\n                        &restricted_graph,", "                    let child_eval = eval_node(\n                        *child,\n                        graph,", ["C02"])
mut("true-is-constant-bdd", A, "Atomic::True => graph.mk_unit_colored_vertices(),", "Atomic::True => GraphColoredVertices::new(graph.symbolic_context().mk_constant(true), graph.symbolic_context()),", ["C03"])
mut("comparator-without-unit", L, "    // do intersection with the unit bdd (static constraints) to be sure its valid\n    comparator.intersect(graph.unit_colored_vertices())", "    comparator", ["C03"],
    "create_equalizer starts from the unit BDD, so dropping the final intersection changes nothing: expected EQUIVALENT")
mut("cache-skips-reverse-renaming", A, "                result = substitute_hctl_var(graph, &result, var_res, var_curr);", "                let _ = (var_res, var_curr);", ["C04", "C01"])
mut("evict-one-fetch-early", A, "if eval_context.duplicates[&canonized_formula_with_domains] == 0 && !is_wild_card {", "if eval_context.duplicates[&canonized_formula_with_domains] <= 1 && !is_wild_card {", ["C04"],
    "only costs recomputation: results unchanged, expected NOT a violation (step-level NOTE only)")
mut("cache-key-ignores-domains", A, "    let canonized_formula_with_domains = (canonized_form.clone(), canonical_domains.clone());\n\n    if eval_context",
    "    let canonical_domains = VarDomainMap::new();\n    let canonized_formula_with_domains = (canonized_form.clone(), canonical_domains.clone());\n\n    if eval_context", ["C04", "C02"])
mut("scope-not-closed", A, "            // remove the domain of this (no longer free) variable\n            eval_context.free_var_domains.remove(&var);", "            // remove the domain of this (no longer free) variable", ["C04", "C14"])
mut("and-left-associative", P, "            parse_7_binary_temp(&tokens[..i])?,\n            parse_6_and(&tokens[(i + 1)..])?,\n            BinaryOp::And,", "            parse_6_and(&tokens[..i])?,\n            parse_7_binary_temp(&tokens[(i + 1)..])?,\n            BinaryOp::And,", ["C05"],
    "splits at the FIRST '&', so the left part never contains one: expected EQUIVALENT or rejection of chains")
mut("or-xor-levels-swapped", P, "    let or_token = index_of_first(tokens, HctlToken::Binary(BinaryOp::Or));", "    let or_token = index_of_first(tokens, HctlToken::Binary(BinaryOp::Xor));", ["C05", "C08"])
mut("constant-spelling-1-dropped", P, "name == \"true\" || name == \"True\" || name == \"1\"", "name == \"true\" || name == \"True\"", ["C05", "C08"])
mut("unary-text-without-space", HT, "format!(\"({op} {child})\")\n        };", "format!(\"({op}{child})\")\n        };", ["C06", "C09"])
mut("height-left-child-only", HT, "height: cmp::max(left.height, right.height) + 1,", "height: left.height + 1,", ["C06", "C09"])
mut("jump-target-unchecked", U, "            if matches!(op, HybridOp::Jump) && !renaming_map.contains_key(var.as_str()) {", "            if false && matches!(op, HybridOp::Jump) && !renaming_map.contains_key(var.as_str()) {", ["C07", "C14"],
    "renaming_map.get(var).unwrap() then panics for a free jump target")
mut("names-by-binder-count", U, "                    last_used_name.push('x'); // this represents adding to stack", "                    last_used_name.push('x'); last_used_name.push('x'); // this represents adding to stack", ["C07", "C14", "C01"])
mut("copy-indexed-by-first-letter", L, "    let hctl_var_id = hctl_var_name.len() - 1; // len of var codes its index\n\n    // collect all BDD vars", "    let hctl_var_id = hctl_var_name.len().min(1) - 1; // len of var codes its index\n\n    // collect all BDD vars", ["C08", "C01"])
mut("canon-ignores-exists", CN, "'!' | '3' | 'V' if subform_chars.peek() == Some(&'{') => {", "'!' | 'V' if subform_chars.peek() == Some(&'{') => {", ["C09", "C04"])
mut("duplicates-ignore-domains", MD, "        let current_formula_with_domains = (current_formula.clone(), canonical_domains.clone());", "        let current_formula_with_domains = (current_formula.clone(), VarDomainMap::new());", ["C09", "C04"])
mut("wildcard-counter-not-incremented", "src/evaluation/eval_context.rs", "                    self.duplicates[&sub_formula_with_domains] + 1,", "                    self.duplicates[&sub_formula_with_domains],", ["C10", "C14", "C04"])
mut("support-check-strict", MU, "if num_hctl_vars > stg.symbolic_context().extra_state_variables(bn_var).len() {", "if num_hctl_vars >= stg.symbolic_context().extra_state_variables(bn_var).len() {", ["C14"])
mut("label-check-props-only", U, "    for var_domain in var_domains {\n        if !context_sets.contains_key(var_domain.as_str()) {\n            return Err(format!(\n                \"Var domain `{}` lacks evaluation context.\",\n                var_domain\n            ));\n        } else {",
    "    for var_domain in var_domains {\n        if false {\n            return Err(format!(\n                \"Var domain `{}` lacks evaluation context.\",\n                var_domain\n            ));\n        } else if context_sets.contains_key(var_domain.as_str()) {", ["C14"])
mut("sanitiser-projects-first-copy-only", "src/postprocessing/sanitizing.rs", "    let sanitized_result_bdd = canonical_context\n        .transfer_from(colored_vertices.as_bdd(), stg.symbolic_context())\n        .unwrap();\n    GraphColoredVertices::new(sanitized_result_bdd, &canonical_context)",
    "    let sanitized_result_bdd = canonical_context\n        .transfer_from(&colored_vertices.as_bdd().exists(stg.symbolic_context().all_extra_state_variables()), stg.symbolic_context())\n        .unwrap();\n    GraphColoredVertices::new(sanitized_result_bdd, &canonical_context)", ["C15", "C03"],
    "projecting the (unused) auxiliary variables first is harmless for closed formulae: expected EQUIVALENT")
mut("archive-skips-empty-sets", GO, "    for (set_name, set) in results.iter() {", "    for (set_name, set) in results.iter().filter(|(_, s)| !s.as_bdd().is_false()) {", ["C16", "C17"])
mut("archive-index-from-one", AN, "results.insert(format!(\"formula-{i}\"), result);", "results.insert(format!(\"formula-{}\", i + 1), result);", ["C17"])
mut("graph-sized-by-first-formula", AN, "        if num_hctl_vars > max_num_hctl_vars {\n            max_num_hctl_vars = num_hctl_vars;\n        }", "        if i == 0 {\n            max_num_hctl_vars = num_hctl_vars;\n        }", ["C17"])
mut("colours-count-from-vertices", RP, "println!(\"{} unique colors\", results.colors().approx_cardinality());", "println!(\"{} unique colors\", results.vertices().approx_cardinality());", ["C17"])
mut("unsafe-variant-sanitises", MC, "        &graph.mk_empty_colored_vertices(),\n        &mut dont_track_progress,\n    );\n    Ok(result)", "        &graph.mk_empty_colored_vertices(),\n        &mut dont_track_progress,\n    );\n    Ok(result.intersect(&compute_steady_states(graph).union(&result)))", ["C18"],
    "x & (s | x) = x: expected EQUIVALENT")
mut("unsafe-ef-consults-steady", MC, "    let mut eval_info = EvalContext::from_single_tree(&tree);\n    // do not consider", "    let mut eval_info = EvalContext::from_single_tree(&tree);\n    let tree = if tree.height > 6 { tree.clone() } else { tree };\n    // do not consider", ["C18"], "no-op: expected EQUIVALENT")
mut("converter-branches-swapped", CV, "            .implies(true_branch)\n            .and(regulator.negation().implies(false_branch))", "            .implies(false_branch)\n            .and(regulator.negation().implies(true_branch))", ["C19"],
    "swapping the names of the two constants keeps the family: expected EQUIVALENT")
mut("converter-one-constant-for-both-branches", CV, "            format!(\"{name_prefix}0\"),\n            synthetic,", "            format!(\"{name_prefix}1\"),\n            synthetic,", ["C19"])
mut("bind-projects-state", E, "    // now lets project out the bdd vars coding the hctl var we want to get rid of\n    project_out_hctl_var(graph, &intersection, var_name)\n}\n\n/// Evaluate existential", "    // now lets project out the bdd vars coding the hctl var we want to get rid of\n    project_out_hctl_var(graph, phi, var_name).intersect(&project_out_hctl_var(graph, &intersection, var_name))\n}\n\n/// Evaluate existential", ["C01", "C20"],
    "exists x. phi contains bind x. phi: expected EQUIVALENT")
mut("pre-only-first-variable-in-saturation", E, "        for var in graph.variables().rev() {", "        for var in graph.variables().rev().skip(1) {", ["C01", "C11", "C20"])


def sh(cmd, **kw):
    return subprocess.run(cmd, capture_output=True, text=True, **kw)


def main():
    sel = sys.argv[1:]
    results = []
    prev = {}
    outp = "/verif/seeded/campaign.json"
    if os.path.exists(outp):
        prev = {r["name"]: r for r in json.load(open(outp))}
    assert sh(["git", "-C", REPO, "status", "--porcelain", "--untracked-files=no"]).stdout.strip() == "", "/repo not clean"
    for m in M:
        if sel and not any(s in m["name"] for s in sel):
            if m["name"] in prev:
                results.append(prev[m["name"]])
            continue
        path = os.path.join(REPO, m["file"])
        text = open(path).read()
        r = {"name": m["name"], "file": m["file"], "note": m["note"], "checks": {}}
        if text.count(m["old"]) != 1:
            r["status"] = "pattern-not-unique (%d)" % text.count(m["old"])
            results.append(r)
            print(m["name"], r["status"], flush=True)
            continue
        open(path, "w").write(text.replace(m["old"], m["new"]))
        try:
            b = sh(["cargo", "test", "--offline", "--lib", "--bins"], cwd=REPO, env=dict(os.environ, CARGO_NET_OFFLINE="true"))
            if "error" in b.stderr and "could not compile" in b.stderr:
                r["status"] = "does-not-compile"
            else:
                ok = "55 passed; 0 failed" in b.stdout
                r["suite_passes"] = ok
                r["status"] = "candidate" if ok else "killed-by-suite"
                if ok:
                    for c in m["checks"]:
                        p = sh(["/verif/check", c, "--tier", "quick"], cwd="/verif")
                        r["checks"][c] = {0: "missed", 1: "DETECTED", 2: "tool-error"}.get(p.returncode, str(p.returncode))
                        if any(l.startswith("NOTE") for l in p.stdout.splitlines()):
                            r["checks"][c] += "+NOTE"
        finally:
            sh(["git", "-C", REPO, "checkout", "--", "."])
        results.append(r)
        print(m["name"], r["status"], r["checks"], flush=True)
        json.dump(results, open(outp, "w"), indent=1)
    json.dump(results, open(outp, "w"), indent=1)
    with open("/verif/seeded/campaign.md", "w") as f:
        f.write("# Scripted mutation campaign (lib/mutants.py)\n\nSimple edits applied to /repo's working tree one at a time, run against the repository's 55 tests and the named checks (quick tier), then undone. `killed-by-suite` mutants are outside the target (the existing tests already see them). `EQUIVALENT` in the note means the edit provably does not change behaviour - a check that reported it would be a false alarm.\n\n| mutant | file | suite | checks | note |\n|---|---|---|---|---|\n")
        for r in results:
            f.write("| %s | %s | %s | %s | %s |\n" % (r["name"], r["file"], r["status"], ", ".join("%s %s" % kv for kv in r["checks"].items()), r.get("note", "")))


if __name__ == "__main__":
    main()
