"""Binding self-test: corrupt one recorded field per case in the files the last quick run of a check
left under work/, re-judge with the same TLC module, and require rejection.  Demonstrates that the
judges are not vacuous (a trace spec that constrains nothing would accept the corrupted files).
Usage: python3 lib/selftest.py [ID ...]   (after ./check ID has been run)"""
import copy
import glob
import json
import os
import sys

sys.path.insert(0, os.path.dirname(os.path.abspath(__file__)))
import common  # noqa: E402

SEM = ["C01", "C02", "C03", "C04", "C08", "C10", "C12", "C13", "C14", "C15", "C18", "C20"]


def corrupt_sem(doc, pid):
    """Flip one (colour, state) pair of the first result of the first call of every case
    (a pair of a VALID colour, taken from the unit set); for C03 add a pair of an invalid colour;
    for C14 turn the outcome around."""
    unit = doc["unit_lib"]
    n_bad = 0
    nvars = len(doc["net"]["vars"])
    for case in doc["cases"]:
        call = case["calls"][0]
        if pid == "C14":
            call["outcome"] = "ok" if call["outcome"] == "err" else "err"
            call.setdefault("res", [[]]); call.setdefault("aux", [False]); call.setdefault("canon", [True])
            n_bad += 1
            continue
        # corrupt a result that the case's judgement actually looks at: one whose formula id occurs in
        # at least two results (equality judgements), else the first result
        ids = [i for c in case["calls"] for i in c.get("ids", [])]
        pick = None
        for c in case["calls"]:
            for j, i in enumerate(c.get("ids", [])):
                if pick is None and ids.count(i) >= 2 and c.get("outcome") == "ok" and j < len(c.get("res", [])):
                    pick = (c, j)
        if pick is None:
            pick = (call, 0)
        call, ri = pick
        if call.get("outcome") != "ok" or not call.get("res") or not unit:
            continue
        r = call["res"][ri]
        if pid == "C03":
            allp = set(range(2 ** nvars * (max(unit) // 2 ** nvars + 1)))
            inval = sorted(allp - set(unit))
            if not inval:
                call["aux"][0] = True
            else:
                r.append(inval[0])
        else:
            t = unit[0]
            if t in r:
                r.remove(t)
            else:
                r.append(t)
            r.sort()
        n_bad += 1
    return n_bad


def selftest_sem(pid):
    d = os.path.join(common.WORK, "%s-quick" % pid)
    files = sorted(glob.glob(os.path.join(d, "out", "*.json")))
    if not files:
        raise common.ToolError("run ./check %s first" % pid)
    wd = common.workdir("%s-selftest" % pid)
    out_files, expected = [], 0
    for f in files:
        doc = json.load(open(f))
        orig = copy.deepcopy(doc)
        corrupt_sem(doc, pid)
        # only cases that were actually changed and that the property judges
        keep = [c for c, o in zip(doc["cases"], orig["cases"]) if c != o]
        if not keep:
            continue
        doc["cases"] = keep
        expected += len(keep)
        p = os.path.join(wd, os.path.basename(f))
        json.dump(doc, open(p, "w"))
        out_files.append(p)
    verdicts, stats = common.judge_sem(out_files)
    rejected = sum(1 for v in verdicts.values() if "F" in v)
    return expected, rejected


def main():
    ids = sys.argv[1:] or SEM
    rc = 0
    for pid in ids:
        if pid in SEM:
            n, r = selftest_sem(pid)
            # C18 / equality-only judgements may be not applicable for some corrupted cases (NA) -> demand most
            need = n if pid not in ("C18",) else int(0.5 * n)
            ok = n > 0 and r >= need
            print("SELFTEST property=%s corrupted=%d rejected=%d %s" % (pid, n, r, "ok" if ok else "NOT-BOUND"))
            rc |= 0 if ok else 2
        else:
            print("SELFTEST property=%s (no automatic corruption for this judge; see DESIGN 14.7)" % pid)
    sys.exit(rc)


if __name__ == "__main__":
    main()
