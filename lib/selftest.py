"""Binding self-test: corrupt one recorded field per case in the files the last quick run of a check
left under work/, re-judge with the same TLC module, and require rejection.  Demonstrates that the
judges are not vacuous (a trace spec that constrains nothing would accept the corrupted files).
Usage: python3 lib/selftest.py [ID ...]   (after ./check ID has been run)"""
import copy
import glob
import json
import os
import sys

sys.path.insert(0, os.path.dirname(os.path.abspath(__file__)))
import common  # noqa: E402

SEM = ["C01", "C02", "C03", "C04", "C08", "C10", "C12", "C13", "C14", "C15", "C18", "C20"]


def corrupt_sem(doc, pid):
    """Flip one (colour, state) pair of the first result of the first call of every case
    (a pair of a VALID colour, taken from the unit set); for C03 add a pair of an invalid colour;
    for C14 turn the outcome around."""
    unit = doc["unit_lib"]
    n_bad = 0
    nvars = len(doc["net"]["vars"])
    for case in doc["cases"]:
        call = case["calls"][0]
        if pid == "C14":
            call["outcome"] = "ok" if call["outcome"] == "err" else "err"
            call.setdefault("res", [[]]); call.setdefault("aux", [False]); call.setdefault("canon", [True])
            n_bad += 1
            continue
        # corrupt a result that the case's judgement actually looks at: one whose formula id occurs in
        # at least two results (equality judgements), else the first result
        ids = [i for c in case["calls"] for i in c.get("ids", [])]
        pick = None
        for c in case["calls"]:
            for j, i in enumerate(c.get("ids", [])):
                if pick is None and ids.count(i) >= 2 and c.get("outcome") == "ok" and j < len(c.get("res", [])):
                    pick = (c, j)
        if pick is None:
            pick = (call, 0)
        call, ri = pick
        if call.get("outcome") != "ok" or not call.get("res") or not unit:
            continue
        r = call["res"][ri]
        if pid == "C03":
            allp = set(range(2 ** nvars * (max(unit) // 2 ** nvars + 1)))
            inval = sorted(allp - set(unit))
            if not inval:
                call["aux"][0] = True
            else:
                r.append(inval[0])
        else:
            t = unit[0]
            if t in r:
                r.remove(t)
            else:
                r.append(t)
            r.sort()
        n_bad += 1
    return n_bad


def selftest_sem(pid):
    d = os.path.join(common.WORK, "%s-quick" % pid)
    files = sorted(glob.glob(os.path.join(d, "out", "*.json")))
    if not files:
        raise common.ToolError("run ./check %s first" % pid)
    wd = common.workdir("%s-selftest" % pid)
    out_files, expected = [], 0
    for f in files:
        doc = json.load(open(f))
        orig = copy.deepcopy(doc)
        corrupt_sem(doc, pid)
        # only cases that were actually changed and that the property judges
        keep = [c for c, o in zip(doc["cases"], orig["cases"]) if c != o]
        if not keep:
            continue
        doc["cases"] = keep
        expected += len(keep)
        p = os.path.join(wd, os.path.basename(f))
        json.dump(doc, open(p, "w"))
        out_files.append(p)
    verdicts, stats = common.judge_sem(out_files)
    rejected = sum(1 for v in verdicts.values() if "F" in v)
    return expected, rejected


# ----------------------------------------------------------------------------- event-level judges
def flip_first_var(ast):
    """replace the first variable reference of a function AST by its negation (changes the function wherever that
    variable matters)"""
    if isinstance(ast, dict):
        if ast.get("op") == "var":
            inner = dict(ast)
            ast.clear(); ast.update({"op": "not", "a": inner})
            return True
        for k in ("a", "b"):
            if k in ast and flip_first_var(ast[k]):
                return True
        for x in ast.get("args", []) if isinstance(ast.get("args"), list) else []:
            if flip_first_var(x):
                return True
    return False


def corrupt_event(e, pid):
    """one recorded field of one event, changed the way a defect would change it; returns True if something changed"""
    if pid == "C05":                                   # accepted <-> rejected
        if e.get("kind") != "parse":
            return False
        if e["plain_outcome"] == "ok":
            e["plain_outcome"] = "err"; e["plain_tree"] = {"op": "REJECT"}; e["plain_full"] = {"op": "REJECT"}
        else:
            e["plain_outcome"] = "ok"; e["plain_tree"] = {"op": "true"}; e["plain_full"] = {"op": "true", "h": 0, "str": "True"}
        return True
    if pid == "C06":                                   # the re-parsed tree is another tree / the stored height is off
        if e.get("kind") != "build" or e.get("built_outcome") != "ok":
            return False
        if "h" in e.get("built_full", {}):
            e["built_full"]["h"] += 1
            return True
        return False
    if pid == "C07":                                   # accepted <-> rejected
        if e.get("kind") != "prep":
            return False
        if e["prep_outcome"] == "ok":
            e["prep_outcome"] = "err"; e["prep_tree"] = {"op": "REJECT"}; e["prep_full"] = {"op": "REJECT"}
        else:
            if e.get("parsed_outcome") != "ok":
                return False
            e["prep_outcome"] = "ok"; e["prep_tree"] = e["parsed_tree"]; e["prep_full"] = e["parsed_full"]
        return True
    if pid == "C09":                                   # a duplicate counter that claims more occurrences than exist
        if e.get("kind") != "canon" or not e.get("dups"):
            return False
        e["dups"][0]["n"] += 7
        return True
    if pid == "C11":                                   # a law that did not hold
        if "equal" not in e:
            return False
        e["equal"] = not e["equal"]
        return True
    if pid == "C16":                                   # a reloaded set that lost or gained a pair; a missing entry
        sets = (e.get("back") or {}).get("sets") or {}
        for l in sorted(sets):
            if sets[l]:
                sets[l].pop(0)
                return True
        for l in sorted(sets):
            w = (e.get("written") or {}).get(l)
            if w == []:
                sets[l].append(0)
                return True
        return False
    if pid == "C17":                                   # a count printed by the tool that is off by one
        for x in e.get("events", []):
            if x.get("ev") == "results":
                x["n"] += 1
                return True
        if e.get("exit") == 0 and e.get("scenario") != "ok":
            e["said_something"] = False                # a failure that said nothing
            return True
        return False
    if pid == "C19":                                   # an output function that differs in one place
        fns = (e.get("net_out") or {}).get("fns") or []
        nin = len((e.get("net_in") or {}).get("vars") or [])
        for j, f in enumerate(fns[:nin]):
            if isinstance(f, dict) and f.get("op") not in (None, "implicit"):
                # the update function of an original variable replaced by a constant (negating it would keep the
                # family of a fully unknown function, which is closed under negation)
                fns[j] = {"op": "const", "val": not (f.get("op") == "const" and f.get("val") is True)}
                return True
        return False
    return False


EVENT = {
    "C05": ("Trace_Syn-*.json", "events", "Trace_Syn.tla", "Trace_Syn.cfg"),
    "C06": ("Trace_Syn-*.json", "events", "Trace_Syn.tla", "Trace_Syn.cfg"),
    "C07": ("Trace_Scope-*.json", "events", "Trace_Scope.tla", "Trace_Scope.cfg"),
    "C09": ("Trace_Scope-*.json", "events", "Trace_Scope.tla", "Trace_Scope.cfg"),
    "C11": ("Trace_Laws-*.json", "facts", "Trace_Laws.tla", "Trace_Laws.cfg"),
    "C16": ("Trace_Arch-*.json", "events", "Trace_Arch.tla", "Trace_Arch.cfg"),
    "C19": ("Trace_Conv-*.json", "events", "Trace_Conv.tla", "Trace_Conv.cfg"),
}


def selftest_events(pid, cap=400):
    pat, key, module, cfg = EVENT[pid]
    files = sorted(glob.glob(os.path.join(common.WORK, "%s-quick" % pid, pat)))
    if not files:
        raise common.ToolError("run ./check %s first" % pid)
    wd = common.workdir("%s-selftest" % pid)
    docs, expected = [], 0
    for f in files:
        doc = json.load(open(f))
        keep = []
        for e in doc[key]:
            if expected + len(keep) >= cap:
                break
            if corrupt_event(e, pid):
                keep.append(e)
        if keep:
            doc[key] = keep
            expected += len(keep)
            docs.append(doc)
    verdicts, stats = common.judge_events(module, cfg, docs, wd, key=key)
    rejected = sum(1 for v in verdicts.values() if "F" in v)
    return expected, rejected


def selftest_c17():
    """Trace_Cli is path-wise: a run without an accepting state prints no verdict"""
    files = sorted(glob.glob(os.path.join(common.WORK, "C17-quick", "cli-*.json")))
    if not files:
        raise common.ToolError("run ./check C17 first")
    wd = common.workdir("C17-selftest")
    expected = rejected = 0
    for i, f in enumerate(files):
        doc = json.load(open(f))
        keep = [e for e in doc["events"] if corrupt_event(e, "C17")]
        if not keep:
            continue
        doc["events"] = keep
        p = os.path.join(wd, "cli-%d.json" % i)
        json.dump(doc, open(p, "w"))
        out, rc, wall = common.run_tlc("Trace_Cli.tla", "Trace_Cli.cfg", os.path.join(wd, "meta-%d" % i), env={"CASEFILE": p}, timeout=1800)
        if "Model checking completed" not in out:
            raise common.ToolError("TLC failed on corrupted CLI traces:\n" + out[-2000:])
        found = dict(common.VERDICT_RE.findall(out))
        expected += len(keep)
        rejected += sum(1 for e in keep if e["id"] not in found)
    return expected, rejected


def main():
    ids = sys.argv[1:] or (SEM + sorted(EVENT) + ["C17"])
    rc = 0
    for pid in ids:
        if pid in SEM:
            n, r = selftest_sem(pid)
            # C18 / equality-only judgements may be not applicable for some corrupted cases (NA) -> demand most
            need = n if pid not in ("C18",) else int(0.5 * n)
            ok = n > 0 and r >= need
            print("SELFTEST property=%s corrupted=%d rejected=%d %s" % (pid, n, r, "ok" if ok else "NOT-BOUND"))
            rc |= 0 if ok else 2
        elif pid in EVENT or pid == "C17":
            n, r = selftest_c17() if pid == "C17" else selftest_events(pid)
            # C19: replacing an update function by the constant true changes nothing where it is a tautology
            ok = n > 0 and (r == n if pid != "C19" else r >= 0.85 * n)
            print("SELFTEST property=%s corrupted=%d rejected=%d %s" % (pid, n, r, "ok" if ok else "NOT-BOUND"))
            rc |= 0 if ok else 2
        else:
            print("SELFTEST property=%s (no automatic corruption for this judge; see DESIGN 14.7)" % pid)
    sys.exit(rc)


if __name__ == "__main__":
    main()
