"""Generators: networks (aeon text) and formulae (ASTs + text renderings).

Generators only produce inputs; they never decide whether an outcome is right.
ASTs use the JSON shape of spec/Hctl.tla.
"""
import random

UNARY = ["not", "EX", "AX", "EF", "AF", "EG", "AG"]
BINARY_BOOL = ["and", "or", "xor", "imp", "iff"]
BINARY_TEMP = ["EU", "AU", "EW", "AW"]
QUANT = ["bind", "exists", "forall"]
SYM = {"not": "~", "and": "&", "or": "|", "xor": "^", "imp": "=>", "iff": "<=>",
       "bind": "!", "jump": "@", "exists": "3", "forall": "V"}
LONG = {"bind": "\\bind ", "jump": "\\jump ", "exists": "\\exists ", "forall": "\\forall "}


# ----------------------------------------------------------------------------- formulae
def T(): return {"op": "true"}
def F(): return {"op": "false"}
def P(n): return {"op": "prop", "name": n}
def V(v): return {"op": "var", "v": v}
def W(n): return {"op": "wild", "name": n}
def U(op, a): return {"op": op, "a": a}
def B(op, a, b): return {"op": op, "a": a, "b": b}
def H(op, v, a, dom=""): return {"op": op, "v": v, "dom": dom, "a": a}


def render(f, style="full", rng=None):
    """Text of an AST. style 'full': every operator application parenthesised (what the
    tool prints); 'long': long hybrid operator names; spacing variations need rng."""
    op = f["op"]
    if op == "true":
        return "true"
    if op == "false":
        return "false"
    if op == "prop":
        return f["name"]
    if op == "var":
        return "{" + f["v"] + "}"
    if op == "wild":
        return "%" + f["name"] + "%"
    if op in UNARY:
        a = render(f["a"], style, rng)
        return "(~" + a + ")" if op == "not" else "(" + op + " " + a + ")"
    if op in BINARY_BOOL or op in BINARY_TEMP:
        return "(" + render(f["a"], style, rng) + " " + SYM.get(op, op) + " " + render(f["b"], style, rng) + ")"
    # hybrid
    head = LONG[op] if style == "long" else SYM[op]
    dom = (" in %" + f["dom"] + "%") if f.get("dom") else ""
    return "(" + head + "{" + f["v"] + "}" + dom + ": " + render(f["a"], style, rng) + ")"


def size(f):
    return 1 + sum(size(f[k]) for k in ("a", "b") if k in f)


def subformulas(f):
    yield f
    for k in ("a", "b"):
        if k in f:
            yield from subformulas(f[k])


def free_vars(f):
    op = f["op"]
    if op == "var":
        return {f["v"]}
    if op in ("true", "false", "prop", "wild"):
        return set()
    if op in UNARY:
        return free_vars(f["a"])
    if op in BINARY_BOOL or op in BINARY_TEMP:
        return free_vars(f["a"]) | free_vars(f["b"])
    if op == "jump":
        return free_vars(f["a"]) | {f["v"]}
    return free_vars(f["a"]) - {f["v"]}


def depth(f):
    op = f["op"]
    if op in ("true", "false", "prop", "wild", "var"):
        return 0
    if op in UNARY or op == "jump":
        return depth(f["a"])
    if op in QUANT:
        return 1 + depth(f["a"])
    return max(depth(f["a"]), depth(f["b"]))


def labels(f):
    out = set()
    for g in subformulas(f):
        if g["op"] == "wild":
            out.add(g["name"])
        if g.get("dom"):
            out.add(g["dom"])
    return out


def ops(f):
    return {g["op"] for g in subformulas(f)}


class FormulaGen:
    """Seeded random generator of closed, well-scoped formulae."""

    def __init__(self, rng, props, unary=UNARY, binary=BINARY_BOOL + ["EU", "AU"], quant=QUANT,
                 wild=(), doms=(), var_names=("x", "y", "z", "xx", "w"), max_nest=3,
                 p_quant=0.25, p_jump=0.12, p_wild=0.15, p_dom=0.5, p_const=0.08, patterns=0.0):
        self.rng, self.props = rng, list(props)
        self.unary, self.binary, self.quant = list(unary), list(binary), list(quant)
        self.wild, self.doms = list(wild), list(doms)
        self.var_names, self.max_nest = list(var_names), max_nest
        self.p_quant, self.p_jump, self.p_wild, self.p_dom, self.p_const = p_quant, p_jump, p_wild, p_dom, p_const
        self.patterns = patterns

    def atom(self, scope):
        r = self.rng
        x = r.random()
        if scope and x < 0.45:
            return V(r.choice(scope))
        if self.wild and x < 0.45 + self.p_wild:
            return W(r.choice(self.wild))
        if x > 1 - self.p_const:
            return r.choice([T(), F()])
        return P(r.choice(self.props))

    def gen(self, budget, scope=()):
        r = self.rng
        scope = list(scope)
        if budget <= 1:
            return self.atom(scope)
        x = r.random()
        if self.patterns and x < self.patterns and len(scope) < self.max_nest:
            v = self.fresh(scope)
            if r.random() < 0.5:
                return H("bind", v, U("AG", U("EF", V(v))))
            return H("bind", v, U("AX", V(v)))
        if x < self.p_quant and len(scope) < self.max_nest and self.quant:
            v = self.fresh(scope)
            dom = r.choice(self.doms) if (self.doms and r.random() < self.p_dom) else ""
            return H(r.choice(self.quant), v, self.gen(budget - 1, scope + [v]), dom)
        if scope and x < self.p_quant + self.p_jump:
            return H("jump", r.choice(scope), self.gen(budget - 1, scope))
        if x < 0.6 and self.unary:
            return U(r.choice(self.unary), self.gen(budget - 1, scope))
        if self.binary:
            left = r.randint(1, max(1, budget - 2))
            return B(r.choice(self.binary), self.gen(left, scope), self.gen(budget - 1 - left, scope))
        return U(r.choice(self.unary), self.gen(budget - 1, scope))

    def fresh(self, scope):
        cand = [v for v in self.var_names if v not in scope]
        return self.rng.choice(cand)


def alpha_rename(f, mapping):
    """Consistently rename bound variables (mapping applies to binder names as they are met)."""
    op = f["op"]
    g = dict(f)
    if op == "var":
        g["v"] = mapping.get(f["v"], f["v"])
        return g
    if op in ("bind", "exists", "forall", "jump"):
        g["v"] = mapping.get(f["v"], f["v"])
    for k in ("a", "b"):
        if k in f:
            g[k] = alpha_rename(f[k], mapping)
    return g


# ----------------------------------------------------------------------------- networks
def rand_fn_expr(rng, regs, params, depth=2):
    """Random update-function expression (aeon syntax) over regulator names and parameters
    `params`: list of (name, arity). Every regulator is mentioned at least once."""
    def atom():
        x = rng.random()
        if params and x < 0.35:
            name, ar = rng.choice(params)
            if ar == 0:
                return name
            args = [rng.choice(regs) for _ in range(ar)] if regs else []
            if len(args) < ar:
                return rng.choice(["true", "false"])
            return name + "(" + ", ".join(args) + ")"
        if regs:
            return rng.choice(regs)
        return rng.choice(["true", "false"])

    def expr(d):
        if d == 0 or rng.random() < 0.3:
            a = atom()
            return "!" + a if rng.random() < 0.3 else a
        op = rng.choice(["&", "|", "^", "=>", "<=>", "&", "|"])
        return "(" + expr(d - 1) + " " + op + " " + expr(d - 1) + ")"
    e = expr(depth)
    for r_ in regs:
        if r_ not in e.replace("(", " ").replace(")", " ").replace(",", " ").replace("!", " ").split():
            e = "(" + e + " " + rng.choice(["&", "|", "^"]) + " " + r_ + ")"
    return e


def rand_network(rng, n, max_pbits=5, names=None, p_implicit=0.45, p_param=0.5):
    """Random aeon model over n variables; returns text. May have an empty unit set or be
    rejected by the library -- callers filter with `hctl-conf probe`."""
    names = names or ["a", "b", "c", "d", "e"][:n]
    params = []
    pbits = 0
    if rng.random() < p_param:
        for pname in ["f", "g", "k"]:
            if rng.random() < 0.5:
                ar = rng.choice([0, 1, 1, 2])
                if pbits + 2 ** ar <= max_pbits:
                    params.append((pname, ar))
                    pbits += 2 ** ar
    lines = []
    mentioned = set()
    for t in names:
        kreg = rng.choice([0, 1, 1, 2, 2, min(3, n)])
        regs = sorted(rng.sample(names, min(kreg, n)))
        implicit = rng.random() < p_implicit
        if implicit and pbits + 2 ** len(regs) > max_pbits:
            implicit = False
        if implicit and not regs and rng.random() < 0.5:
            implicit = False
        fn = None
        if implicit:
            pbits += 2 ** len(regs)
        else:
            fn = rand_fn_expr(rng, regs, params, depth=rng.choice([1, 2, 2]))
        uses_param = fn is not None and any((p + "(") in fn or p in fn.replace("(", " ").replace(")", " ").split() for p, _ in params)
        for r_ in regs:
            if implicit or uses_param:
                arrow = rng.choice(["->", "-|", "-?", "->?", "-|?", "-??", "-??", "->", "-|"])
            else:
                arrow = rng.choice(["-??", "-??", "-??", "-?", "->?", "-|?", "->", "-|"])
            lines.append(f"{r_} {arrow} {t}")
            mentioned.add(r_)
            mentioned.add(t)
        if fn is not None:
            lines.append(f"${t}: {fn}")
            mentioned.add(t)
    for t in names:
        if t not in mentioned:
            lines.append(f"{t} -?? {t}")
            lines.append(f"${t}: {t}")
    return "\n".join(lines) + "\n"
